"""./check entry point."""
import argparse
import os
import sys


def main(argv=None):
    ap = argparse.ArgumentParser(prog="check")
    ap.add_argument("prop")
    ap.add_argument("--tier", default=os.environ.get("VERIF_TIER", "quick"), choices=["quick", "thorough"])
    ap.add_argument("--replay", default=None)
    ap.add_argument("--workers", type=int, default=None)
    ap.add_argument("--only", default=None, help="fnmatch on case kind (debugging; evidence reflects the subset)")
    a = ap.parse_args(argv)
    try:
        seed = int(os.environ.get("VERIF_SEED", "0"))
    except ValueError:
        seed = 0
    import logging
    logging.disable(logging.CRITICAL)
    from engine import core
    rc = core.run_property(a.prop.upper(), a.tier, seed, workers=a.workers, replay=a.replay, only=a.only)
    sys.stdout.flush()
    return rc


if __name__ == "__main__":
    sys.exit(main())
