"""parx - virtual scheduler for numba `prange` kernels.

The kernel's own Python source (dispatcher.py_func) is executed with the module globals
`prange`, `get_thread_id`, `get_num_threads` and `np` rebound, so that

  * the explorer decides which virtual thread executes which iteration and in which order;
  * every array allocated inside the kernel (and every input array) is a traced ndarray: each
    element read / write is logged with the virtual thread that performed it and whether it
    happened inside the parallel region;
  * compiled helpers that receive a traced array are wrapped so that the hand-off counts as a read
    (and a write for declared out-parameters).

Invariant checked after each execution (conflict freedom): no element that is ever read is
accessed inside the parallel region by two different virtual threads with at least one write.
Conflict freedom makes the result independent of the interleaving *within* iterations, so
enumerating thread assignments x iteration orders is a complete exploration of the schedules
of a prange loop with T threads at iteration granularity.
"""
import itertools

import numpy as np

MAIN = -1


class Trace:
    def __init__(self):
        self.narr = 0
        self.log = {}      # (aid, cell) -> set of (thread, kind, in_region)
        self.names = {}
        self.in_region = False
        self.cur = MAIN
        self.tid_calls = []
        self.iterations = 0

    def new_id(self, name):
        self.narr += 1
        self.names[self.narr] = name
        return self.narr

    def rec(self, aid, cells, kind):
        key = (self.cur if self.in_region else MAIN, kind, self.in_region)
        log = self.log
        for c in cells:
            s = log.get((aid, c))
            if s is None:
                log[(aid, c)] = {key}
            else:
                s.add(key)

    def conflicts(self):
        """returns (harmful, benign) lists of (array name, cell, threads)"""
        harmful, benign = [], []
        for (aid, cell), accs in self.log.items():
            inreg = [(t, k) for (t, k, r) in accs if r]
            threads = {t for t, _ in inreg}
            if len(threads) < 2 or not any(k == "W" for _, k in inreg):
                continue
            ever_read = any(k == "R" for (_, k, _) in accs)
            (harmful if ever_read else benign).append((self.names[aid], int(cell), sorted(threads)))
        return harmful, benign


class TArr(np.ndarray):
    """traced array; `_ids` maps every element of this view to the flat cell id of its base"""

    def __array_finalize__(self, obj):
        self._trace = getattr(obj, "_trace", None)
        self._aid = getattr(obj, "_aid", None)
        self._ids = None

    def _cells(self, idx):
        ids = self._ids
        if ids is None:
            return ()
        sel = ids[idx]
        return sel.ravel().tolist() if isinstance(sel, np.ndarray) else (int(sel),)

    def __getitem__(self, idx):
        out = np.ndarray.__getitem__(self, idx)
        tr = self._trace
        if tr is not None and self._ids is not None:
            if isinstance(out, np.ndarray):
                out = out.view(TArr)
                out._trace = tr
                out._aid = self._aid
                out._ids = self._ids[idx]
                # taking a view is not an access; reading its elements later is
            else:
                tr.rec(self._aid, self._cells(idx), "R")
        return out

    def __setitem__(self, idx, val):
        tr = self._trace
        if tr is not None and self._ids is not None:
            tr.rec(self._aid, self._cells(idx), "W")
        np.ndarray.__setitem__(self, idx, val)

    def __array_ufunc__(self, ufunc, method, *inputs, out=None, **kw):
        # whole-array arithmetic: reads of all inputs, writes of outs
        args = []
        for a in inputs:
            if isinstance(a, TArr):
                if a._trace is not None and a._ids is not None:
                    a._trace.rec(a._aid, a._ids.ravel().tolist(), "R")
                args.append(a.view(np.ndarray))
            else:
                args.append(a)
        outs = None
        if out is not None:
            outs = []
            for o in out:
                if isinstance(o, TArr):
                    if o._trace is not None and o._ids is not None:
                        o._trace.rec(o._aid, o._ids.ravel().tolist(), "W")
                    outs.append(o.view(np.ndarray))
                else:
                    outs.append(o)
            kw["out"] = tuple(outs)
        res = getattr(ufunc, method)(*args, **kw)
        if out is not None:
            return out[0] if len(out) == 1 else out
        return res


def traced(trace, arr, name):
    a = np.array(arr, copy=True).view(TArr)
    a._trace = trace
    a._aid = trace.new_id(name)
    a._ids = np.arange(a.size).reshape(a.shape)
    return a


class NpProxy:
    """stands in for the kernel module's `np`: allocation functions return traced arrays"""

    def __init__(self, trace):
        self._t = trace
        self._n = 0

    def _mk(self, fn, *a, **k):
        self._n += 1
        site = "alloc%d@%s" % (self._n, "region" if self._t.in_region else "outside")
        return traced(self._t, fn(*a, **k), site)

    def zeros(self, *a, **k):
        return self._mk(np.zeros, *a, **k)

    def empty(self, *a, **k):
        # deterministic content so that reads of uninitialised cells are reproducible
        return self._mk(np.zeros, *a, **k)

    def zeros_like(self, *a, **k):
        return self._mk(np.zeros_like, *a, **k)

    def empty_like(self, *a, **k):
        return self._mk(np.zeros_like, *a, **k)

    def __getattr__(self, name):
        return getattr(np, name)


class VSched:
    def __init__(self, trace, T, assign, order):
        self.trace, self.T, self.assign, self.order = trace, T, assign, order

    def prange(self, *args):
        rng = range(*args)
        its = list(rng)
        if self.order == "desc":
            its = its[::-1]
        elif isinstance(self.order, (list, tuple)):
            its = [its[i] for i in self.order]
        tr = self.trace
        tr.in_region = True
        try:
            for i in its:
                tr.cur = self.assign.get(i, 0)
                tr.iterations += 1
                yield i
        finally:
            tr.in_region = False
            tr.cur = MAIN

    def get_thread_id(self):
        t = self.trace.cur if self.trace.in_region else 0
        self.trace.tid_calls.append(t)
        return t

    def get_num_threads(self):
        return self.T


def _wrap_helper(trace, fn, out_params=()):
    def w(*args):
        plain = []
        for n, a in enumerate(args):
            if isinstance(a, TArr):
                if a._ids is not None:
                    cells = a._ids.ravel().tolist()
                    if n in out_params:
                        trace.rec(a._aid, cells, "W")
                    else:
                        trace.rec(a._aid, cells, "R")
                plain.append(a.view(np.ndarray))
            else:
                plain.append(a)
        return fn(*plain)
    return w


def run_virtual(module, kernel_name, args, T, assign, order, helpers=(), array_args=()):
    """Execute module.<kernel_name>.py_func(*args) under the virtual scheduler.
    helpers: {name: tuple(out-param positions)} compiled helpers to wrap.
    array_args: positions in args that are traced input arrays.
    returns (result ndarray, Trace)"""
    tr = Trace()
    sch = VSched(tr, T, assign, order)
    saved = {}
    patch = {"prange": sch.prange, "get_thread_id": sch.get_thread_id, "get_num_threads": sch.get_num_threads, "np": NpProxy(tr)}
    for h, outp in dict(helpers).items():
        patch[h] = _wrap_helper(tr, getattr(module, h), outp)
    a2 = list(args)
    for pos in array_args:
        a2[pos] = traced(tr, args[pos], "input%d" % pos)
    fn = getattr(module, kernel_name).py_func
    g = fn.__globals__
    try:
        for k, v in patch.items():
            if k not in g:
                continue      # the kernel module does not use this name (e.g. no per-thread scratch => no get_thread_id)
            saved[k] = g[k]
            g[k] = v
        out = fn(*a2)
    finally:
        for k, v in saved.items():
            g[k] = v
    return np.asarray(out).view(np.ndarray), tr


def assignments(nontrivial_iters, T):
    """all maps nontrivial iteration -> thread in 0..T-1 (thread-symmetry NOT reduced: row index matters)"""
    for combo in itertools.product(range(T), repeat=len(nontrivial_iters)):
        yield dict(zip(nontrivial_iters, combo))
