"""Boring reference model of multivariate polynomials in 6 variables:
dict {exponent 6-tuple -> complex coefficient}. Written independently of the library."""
from itertools import product


def clean(p, tol=0.0):
    return {k: v for k, v in p.items() if abs(v) > tol}


def add(p, q, scale=1.0):
    r = dict(p)
    for k, v in q.items():
        r[k] = r.get(k, 0) + scale * v
    return r


def mul(p, q, max_deg=None):
    r = {}
    for k1, v1 in p.items():
        for k2, v2 in q.items():
            k = tuple(a + b for a, b in zip(k1, k2))
            if max_deg is not None and sum(k) > max_deg:
                continue
            r[k] = r.get(k, 0) + v1 * v2
    return r


def power(p, n, max_deg=None):
    r = {(0,) * 6: 1.0}
    for _ in range(n):
        r = mul(r, p, max_deg)
    return r


def diff(p, var):
    r = {}
    for k, v in p.items():
        if k[var] == 0:
            continue
        kk = list(k)
        kk[var] -= 1
        kk = tuple(kk)
        r[kk] = r.get(kk, 0) + v * k[var]
    return r


def integrate(p, var):
    r = {}
    for k, v in p.items():
        kk = list(k)
        kk[var] += 1
        kk = tuple(kk)
        r[kk] = r.get(kk, 0) + v / (k[var] + 1)
    return r


def poisson(p, q, max_deg=None):
    """{p,q} = sum_m dp/dq_m dq/dp_m - dp/dp_m dq/dq_m with variables (q1,q2,q3,p1,p2,p3)."""
    r = {}
    for m in range(3):
        r = add(r, mul(diff(p, m), diff(q, m + 3), max_deg))
        r = add(r, mul(diff(p, m + 3), diff(q, m), max_deg), -1.0)
    return r


def evaluate(p, x):
    s = 0
    for k, v in p.items():
        t = v
        for xi, e in zip(x, k):
            if e:
                t = t * xi ** e
        s += t
    return s


def substitute(p, C, shifts=None, max_deg=None):
    """new(y) = p(C y + shifts)"""
    var = []
    for i in range(6):
        d = {}
        for j in range(6):
            if C[i][j] != 0:
                e = [0] * 6
                e[j] = 1
                d[tuple(e)] = C[i][j]
        if shifts is not None and shifts[i] != 0:
            d[(0,) * 6] = shifts[i]
        var.append(d)
    r = {}
    for k, v in p.items():
        term = {(0,) * 6: v}
        for i in range(6):
            if k[i]:
                term = mul(term, power(var[i], k[i], max_deg), max_deg)
        r = add(r, term)
    return r


def monomials(deg):
    """all exponent tuples of total degree deg in 6 variables"""
    out = []

    def rec(prefix, left, nvar):
        if nvar == 1:
            out.append(tuple(prefix + [left]))
            return
        for e in range(left, -1, -1):
            rec(prefix + [e], left - e, nvar - 1)

    rec([], deg, 6)
    return out


def maxdiff(p, q):
    keys = set(p) | set(q)
    m = 0.0
    worst = None
    for k in keys:
        d = abs(p.get(k, 0) - q.get(k, 0))
        s = d / (1.0 + abs(q.get(k, 0)))
        if s > m:
            m = s
            worst = k
    return m, worst
