"""Helpers shared by the integrator properties: polynomial Hamiltonians given as reference
dict polynomials (engine.refpoly), the library system built from them, and harness-side
Hamilton equations (pure python and generated njit source) that do not use the library."""
import numpy as np

from engine import refpoly as R

_T = {}


def tables(deg=8):
    if deg not in _T:
        from hiten.algorithms.polynomial import base as pb

        psi, clmo = pb._init_index_tables(deg)
        enc = pb._create_encode_dict_from_clmo(clmo)
        _T[deg] = (psi, clmo, enc)
    return _T[deg]


def poly_list(p, max_deg, tab=None):
    from numba.typed import List
    from hiten.algorithms.polynomial import base as pb

    psi, clmo, enc = tab or tables(max(8, max_deg))
    lst = List()
    for d in range(max_deg + 1):
        a = np.zeros(int(psi[6, d]), dtype=np.complex128)
        for k, v in p.items():
            if sum(k) == d:
                idx = pb._encode_multiindex(np.array(k, dtype=np.int64), d, enc)
                a[idx] = v
        lst.append(a)
    return lst


def make_hamsys(p, max_deg=None, n_dof=3):
    from hiten.algorithms.dynamics.hamiltonian import create_hamiltonian_system

    max_deg = max_deg or max(sum(k) for k in p)
    psi, clmo, enc = tables(max(8, max_deg))
    return create_hamiltonian_system(poly_list(p, max_deg), max_deg, psi, clmo, enc, n_dof=n_dof, name="verif")


def grad_py(p):
    """f(t, y) = (dH/dP, -dH/dQ) as a pure-python/numpy callable built from exact derivatives"""
    dq = [R.diff(p, i) for i in range(3)]
    dp = [R.diff(p, i + 3) for i in range(3)]

    def f(t, y):
        out = np.empty(6)
        for i in range(3):
            out[i] = complex(R.evaluate(dp[i], y)).real
            out[3 + i] = -complex(R.evaluate(dq[i], y)).real
        return out

    return f


def _expr(d):
    terms = []
    for k, v in sorted(d.items()):
        v = complex(v)
        if v == 0:
            continue
        t = [repr(float(v.real))]
        for i, e in enumerate(k):
            if e == 1:
                t.append("y[%d]" % i)
            elif e > 1:
                t.append("y[%d]**%d" % (i, e))
        terms.append("*".join(t))
    return " + ".join(terms) if terms else "0.0"


def grad_source(p, name="rhs"):
    """python source of the generic vector field J grad H (njit-able, no library code)"""
    lines = ["def %s(t, y):" % name, "    out = np.empty(6)"]
    for i in range(3):
        lines.append("    out[%d] = %s" % (i, _expr(R.diff(p, i + 3))))
        lines.append("    out[%d] = -(%s)" % (i + 3, _expr(R.diff(p, i))))
    lines.append("    return out")
    return "\n".join(lines)


def make_generic(p, name="rhs"):
    """library generic system whose rhs is harness-generated source (compiled by the library's own njit path)"""
    from hiten.algorithms.dynamics.rhs import create_rhs_system

    ns = {"np": np}
    exec(grad_source(p, name), ns)
    return create_rhs_system(ns[name], 6, name="verif-generic"), ns[name]


def H_value(p, y):
    return complex(R.evaluate(p, y)).real


def e(*k):
    return tuple(k)


def ham_menu():
    """polynomial Hamiltonians in 3 dof (variables q1,q2,q3,p1,p2,p3), degree <= 6"""
    quad = {e(2, 0, 0, 0, 0, 0): 0.5, e(0, 0, 0, 2, 0, 0): 0.5, e(0, 2, 0, 0, 0, 0): 0.65, e(0, 0, 0, 0, 2, 0): 0.65,
            e(0, 0, 2, 0, 0, 0): 0.35, e(0, 0, 0, 0, 0, 2): 0.35}
    M = {}
    M["oscillators"] = dict(quad)
    M["pendulum_taylor"] = R.add(quad, {e(4, 0, 0, 0, 0, 0): -1.0 / 24, e(6, 0, 0, 0, 0, 0): 1.0 / 720})
    M["qp_couplings"] = R.add(quad, {e(1, 0, 0, 0, 1, 0): 0.2, e(0, 1, 0, 0, 0, 1): -0.15, e(0, 0, 1, 1, 0, 0): 0.1})
    M["q2p2"] = R.add(quad, {e(2, 0, 0, 2, 0, 0): 0.3, e(0, 2, 0, 0, 0, 2): 0.2, e(1, 1, 0, 1, 1, 0): -0.25})
    M["cubic_mixed"] = R.add(quad, {e(1, 1, 0, 0, 0, 1): 0.3, e(1, 1, 1, 0, 0, 0): 0.2, e(0, 0, 1, 1, 1, 0): -0.2})
    M["saddle_center"] = {e(1, 0, 0, 1, 0, 0): 1.2, e(0, 2, 0, 0, 0, 0): 0.8, e(0, 0, 0, 0, 2, 0): 0.8, e(0, 0, 2, 0, 0, 0): 0.9, e(0, 0, 0, 0, 0, 2): 0.9,
                          e(1, 2, 0, 0, 0, 0): 0.3, e(0, 1, 0, 1, 0, 1): 0.2, e(2, 0, 0, 2, 0, 0): -0.1}
    M["deg5"] = R.add(quad, {e(2, 1, 0, 1, 1, 0): 0.1, e(0, 0, 3, 0, 2, 0): -0.05, e(1, 0, 0, 0, 0, 4): 0.02})
    M["deg6"] = R.add(quad, {e(2, 2, 2, 0, 0, 0): 0.05, e(0, 0, 0, 2, 2, 2): 0.05, e(3, 0, 0, 3, 0, 0): -0.02, e(1, 1, 1, 1, 1, 1): 0.03})
    return M
