"""Rooted trees and Butcher order conditions (complete enumeration up to a given order).

A tree is a sorted tuple of its child subtrees; () is the single vertex."""
from functools import lru_cache

import numpy as np


@lru_cache(maxsize=None)
def trees_of_order(n):
    """all rooted trees with n vertices, canonical form (sorted tuples)"""
    if n == 1:
        return ((),)
    out = set()

    # forests with n-1 vertices in total: multisets of trees
    def forests(total, max_order, max_idx_for_order):
        # generate multisets of trees with orders summing to `total`, non-increasing in (order, index)
        if total == 0:
            yield ()
            return
        for o in range(min(total, max_order), 0, -1):
            ts = trees_of_order(o)
            top = len(ts) if o < max_order else min(len(ts), max_idx_for_order)
            for i in range(top - 1, -1, -1):
                for rest in forests(total - o, o, i + 1):
                    yield (ts[i],) + rest

    for f in forests(n - 1, n - 1, 10 ** 9):
        out.add(tuple(sorted(f)))
    return tuple(sorted(out))


def order(t):
    return 1 + sum(order(c) for c in t)


def gamma(t):
    g = order(t)
    for c in t:
        g *= gamma(c)
    return g


def stage_weights(t, A):
    """Phi_i(t) for all stages i (vector), A strictly lower triangular (s x s)."""
    s = A.shape[0]
    out = np.ones(s)
    for c in t:
        out = out * (A @ stage_weights(c, A))
    return out


def all_trees(max_order):
    return [t for n in range(1, max_order + 1) for t in trees_of_order(n)]


def check_order(A, b, c, p, tol=1e-12):
    """returns list of (tree, order, residual) failing Phi(t) = 1/gamma(t), plus row-sum failures"""
    A = np.asarray(A, dtype=float)
    b = np.asarray(b, dtype=float)
    c = np.asarray(c, dtype=float)
    bad = []
    rs = A.sum(axis=1) - c
    for i, r in enumerate(rs):
        if abs(r) > tol:
            bad.append((("rowsum", i), 1, float(r)))
    n = 0
    for t in all_trees(p):
        n += 1
        r = float(b @ stage_weights(t, A)) - 1.0 / gamma(t)
        if abs(r) > tol:
            bad.append((t, order(t), r))
    return n, bad


def to_str(t):
    return "[" + "".join(to_str(c) for c in t) + "]"
