"""Explorer core shared by all property checks.

A property module (props/cXX.py) exposes

    ID, LEVEL, RULE, ASSUMPTIONS
    KINDS = {kind: fn}          fn(params: dict) -> result dict (see `res`)
    cases(tier, seed) -> list[(kind, params)]     the *complete* finite space explored
    finalize(cov, results, tier)  (optional)      add coverage keys / global oracles,
                                                  may return extra violations
    WORKERS = {'quick': n, 'thorough': n}         (optional) process fan-out

The engine enumerates every case (never samples), runs it on the real code, collects
violations, re-executes every violating case a second time (a violation that does not
reproduce identically is a harness error, exit 2), matches violations against
known_findings.json, writes replay files and the evidence file.
"""
from __future__ import annotations

import fnmatch
import json
import math
import os
import sys
import time
import traceback

ROOT = os.path.dirname(os.path.dirname(os.path.abspath(__file__)))
EVIDENCE_DIR = os.path.join(ROOT, "evidence")
REPLAY_DIR = os.path.join(ROOT, "replays")
KNOWN_FILE = os.path.join(ROOT, "known_findings.json")


# ----------------------------------------------------------------------------- results
def res(evals=1, nontrivial=0, sigs=None, viol=None, sample=None, stats=None):
    """Result of one case (which may itself be a batch of `evals` sub-cases).

    nontrivial : number of distinct non-trivial sub-cases (when sigs is None)
    sigs       : iterable of hashable signatures of the non-trivial sub-cases; the engine
                 counts the distinct ones over the whole run
    viol       : list of violation dicts made with `violation(...)`
    """
    return {
        "evals": int(evals),
        "nontrivial": int(nontrivial),
        "sigs": None if sigs is None else [str(s) for s in sigs],
        "viol": list(viol or []),
        "sample": sample,
        "stats": dict(stats or {}),
    }


def violation(key, what, observed=None, expected=None, case=None):
    """key identifies the failing input/history class for known-finding matching;
    case=(kind, params) overrides the replay case (defaults to the enclosing case)."""
    return {
        "key": str(key),
        "what": str(what),
        "observed": _jsonable(observed),
        "expected": _jsonable(expected),
        "case": None if case is None else [case[0], _jsonable(case[1])],
    }


def _jsonable(x):
    try:
        import numpy as np
    except Exception:  # pragma: no cover
        np = None
    if x is None or isinstance(x, (bool, int, str)):
        return x
    if isinstance(x, float):
        if math.isnan(x) or math.isinf(x):
            return repr(x)
        return x
    if isinstance(x, complex):
        return [x.real, x.imag]
    if np is not None:
        if isinstance(x, np.ndarray):
            return _jsonable(x.tolist())
        if isinstance(x, np.generic):
            return _jsonable(x.item())
    if isinstance(x, dict):
        return {str(k): _jsonable(v) for k, v in x.items()}
    if isinstance(x, (list, tuple, set, frozenset)):
        return [_jsonable(v) for v in x]
    return repr(x)


# ----------------------------------------------------------------------------- seeds
def seed_offsets(seed, n, scale=1.0):
    """Deterministic irrational offsets in (-scale/2, scale/2); seed 0 -> fixed vector.
    The seed never selects cases, it only shifts lattice atoms."""
    phi = 0.6180339887498949
    out = []
    for i in range(n):
        v = ((seed + 1) * phi * (i + 1) * 1.3247179572447458) % 1.0
        out.append((v - 0.5) * scale)
    return out


# ----------------------------------------------------------------------------- known findings
def load_known():
    if not os.path.exists(KNOWN_FILE):
        return []
    with open(KNOWN_FILE) as fh:
        data = json.load(fh)
    return data.get("findings", [])


def match_known(prop_id, key, known):
    for ent in known:
        if ent.get("property") != prop_id:
            continue
        if ent.get("status", "known") != "known":
            continue  # fixed entries suppress nothing
        pat = ent.get("key", "")
        if key == pat or fnmatch.fnmatchcase(key, pat):
            return ent
    return None


# ----------------------------------------------------------------------------- worker side
_MOD = None


def _load_mod(prop_id):
    global _MOD
    if _MOD is None or getattr(_MOD, "ID", None) != prop_id:
        import importlib

        _MOD = importlib.import_module("props." + prop_id.lower())
    return _MOD


_WORKER_HISTORY = []  # indices of the cases this worker process has executed so far, in order


def _run_one(args):
    prop_id, idx, kind, params = args
    mod = _load_mod(prop_id)
    t0 = time.time()
    prior = list(_WORKER_HISTORY)
    _WORKER_HISTORY.append(idx)
    try:
        r = mod.KINDS[kind](params)
    except Exception as exc:  # harness error, never a verdict
        return idx, {"error": "%s: %s\n%s" % (type(exc).__name__, exc, traceback.format_exc())}, time.time() - t0
    for v in r["viol"]:
        if v["case"] is None:
            v["case"] = [kind, _jsonable(params)]
        v["_prior"] = prior  # the cases that ran before this one in the same process: replayed if the violation needs them
        v["_top"] = idx
    return idx, r, time.time() - t0


def _worker_init(prop_id, nthreads):
    mod0 = _load_mod(prop_id)
    nthreads = getattr(mod0, "NUMBA_THREADS", nthreads)
    os.environ["NUMBA_NUM_THREADS"] = str(nthreads)
    try:
        import numba

        if numba.config.NUMBA_NUM_THREADS >= nthreads:
            numba.set_num_threads(nthreads)
    except Exception:
        pass
    mod = _load_mod(prop_id)
    if hasattr(mod, "worker_init"):
        mod.worker_init()


# ----------------------------------------------------------------------------- main driver
def run_property(prop_id, tier, seed, workers=None, replay=None, only=None):
    t_start = time.time()
    mod = _load_mod(prop_id)
    known = load_known()

    if replay is not None:
        return _replay(mod, replay)

    case_list = list(mod.cases(tier, seed))
    if only:
        case_list = [c for c in case_list if fnmatch.fnmatchcase(c[0], only)]
    n_cases = len(case_list)
    if n_cases == 0:
        print("HARNESS-ERROR: empty case list", flush=True)
        return 2
    nworkers = workers or getattr(mod, "WORKERS", {}).get(tier, 1)
    nworkers = max(1, min(nworkers, n_cases, os.cpu_count() or 1))
    print("[%s] tier=%s seed=%d cases=%d workers=%d" % (prop_id, tier, seed, n_cases, nworkers), flush=True)

    results = [None] * n_cases
    errors = []
    tasks = [(prop_id, i, k, p) for i, (k, p) in enumerate(case_list)]
    done = 0
    last_print = time.time()
    import multiprocessing as mp

    ctx = mp.get_context("fork")
    nthreads = max(1, (os.cpu_count() or 16) // nworkers)
    # cases of the kinds in FRESH_KINDS run one per newly forked worker: the only history such a case has is the one it states
    fresh_kinds = set(getattr(mod, "FRESH_KINDS", ()))
    batches = [([t for t in tasks if t[2] not in fresh_kinds], None), ([t for t in tasks if t[2] in fresh_kinds], 1)]
    for batch, per_child in batches:
        if not batch:
            continue
        pool = ctx.Pool(min(nworkers, len(batch)), initializer=_worker_init, initargs=(prop_id, nthreads), maxtasksperchild=per_child)
        try:
            for idx, r, dt in pool.imap_unordered(_run_one, batch, chunksize=1):
                done += 1
                if "error" in r:
                    errors.append((idx, r["error"]))
                else:
                    results[idx] = r
                if time.time() - last_print > 30:
                    last_print = time.time()
                    print("[%s] %d/%d cases, %.0fs" % (prop_id, done, n_cases, time.time() - t_start), flush=True)
        finally:
            pool.close()
            pool.join()

    if errors:
        for idx, e in errors[:5]:
            print("HARNESS-ERROR in case %s %s:\n%s" % (case_list[idx][0], json.dumps(_jsonable(case_list[idx][1]))[:300], e), flush=True)
        print("HARNESS-ERROR: %d case(s) crashed in the harness; no verdict" % len(errors), flush=True)
        return 2

    # ---- aggregate
    evals = sum(r["evals"] for r in results)
    sig_set = set()
    nontrivial = 0
    stats = {}
    samples = []
    viols = []
    for (kind, params), r in zip(case_list, results):
        if r["sigs"] is not None:
            for s in r["sigs"]:
                sig_set.add(kind + "|" + s)
        else:
            nontrivial += r["nontrivial"]
        for k, v in r["stats"].items():
            if k.startswith("max_"):
                stats[k] = max(stats.get(k, v), v)
            elif k.startswith("min_"):
                stats[k] = min(stats.get(k, v), v)
            elif isinstance(v, (int, float)):
                stats[k] = stats.get(k, 0) + v
            else:
                stats.setdefault(k, v)
        if r["sample"] is not None and len(samples) < 6 and not any(s.get("kind") == kind for s in samples[-1:]):
            samples.append({"kind": kind, "case": _jsonable(params), "observed": _jsonable(r["sample"])})
        viols.extend(r["viol"])
    nontrivial += len(sig_set)
    if not samples:
        for (kind, params), r in list(zip(case_list, results))[:3]:
            samples.append({"kind": kind, "case": _jsonable(params)})

    cov = {
        "evaluations": evals,
        "distinct_nontrivial": nontrivial,
        "rule": getattr(mod, "RULE", ""),
        "samples": samples,
        "exhaustive": True,
        "cases": n_cases,
        "kinds": sorted({k for k, _ in case_list}),
    }
    cov.update({k: _jsonable(v) for k, v in stats.items()})
    if hasattr(mod, "finalize"):
        extra = mod.finalize(cov, results, tier, case_list)
        if extra:
            viols.extend(extra)

    # ---- dedupe violations by key, confirm each by re-execution
    by_key = {}
    for v in viols:
        by_key.setdefault(v["key"], []).append(v)
    new_keys = []
    known_hits = {}
    for key, vs in by_key.items():
        ent = match_known(prop_id, key, known)
        if ent is not None:
            known_hits.setdefault(ent["key"], [ent, 0])
            known_hits[ent["key"]][1] += len(vs)
        else:
            new_keys.append(key)

    rc = 0
    os.makedirs(os.path.join(REPLAY_DIR, prop_id), exist_ok=True)
    reported = 0
    for n, key in enumerate(sorted(new_keys)):
        v = by_key[key][0]
        # confirm by re-executing the recorded case in a fresh process (no earlier cases in its history); several
        # candidate cases are tried, the first one that reproduces becomes the replay artefact
        cands, seen_c = [], set()
        for cv in by_key[key]:
            if cv["case"] is not None and cv["case"][0] in mod.KINDS:
                cj = json.dumps(_jsonable(cv["case"]), sort_keys=True)
                if cj not in seen_c:
                    seen_c.add(cj)
                    cands.append(cv)
            if len(cands) >= 3:
                break
        history = None
        if cands and n < 5:  # the verdict is settled by the first confirmed keys; further keys are filed as found
            confirmed, last = None, None
            for cv in cands:
                again = _rerun_keys(mod, cv["case"], prop_id)
                if again is None or key in again:
                    confirmed = cv
                    break
                last = again
            if confirmed is None:
                # not reproducible from a fresh process: replay what the finding worker had executed before it (the state is the
                # history reaching it), then shrink that history while the violation still shows
                cv = cands[0]
                prior = [list(case_list[i]) for i in cv.get("_prior", [])]
                top = cv.get("_top")
                if top is not None and json.dumps(_jsonable(list(case_list[top])), sort_keys=True) != json.dumps(_jsonable(cv["case"]), sort_keys=True):
                    # the recorded case is a narrowed one: the enclosing case (which ran other sub-cases first) belongs to the history
                    again = _rerun_keys(mod, list(case_list[top]), prop_id)
                    if again is not None and key in again:
                        cv["case"] = [case_list[top][0], _jsonable(case_list[top][1])]
                        confirmed = cv
                        prior = []
                    else:
                        prior = prior + [list(case_list[top])]
                if prior and confirmed is None:
                    again = _rerun_keys(mod, cv["case"], prop_id, history=prior)
                    if again is not None and key in again:
                        chunk = max(1, len(prior) // 2)
                        budget = 10
                        while chunk >= 1 and budget > 0 and len(prior) > 1:
                            i, shrunk = 0, False
                            while i < len(prior) and budget > 0 and len(prior) > 1:
                                trial = prior[:i] + prior[i + chunk:]
                                budget -= 1
                                ag = _rerun_keys(mod, cv["case"], prop_id, history=trial) if trial else None
                                if ag is not None and key in ag:
                                    prior, shrunk = trial, True
                                else:
                                    i += chunk
                            if chunk == 1:
                                break
                            chunk = max(1, chunk // 2)
                        confirmed, history = cv, prior
                        cv["what"] = "[only after %d earlier case(s) in the same process, listed in the replay file: the result depends on what ran before] %s" % (len(prior), cv["what"])
            if confirmed is not None:
                v = confirmed
            else:
                v = cands[0]
                if getattr(mod, "NONDETERMINISM_IS_VIOLATION", False):
                    # the property itself demands independence from scheduling / from what ran earlier in the process:
                    # a result that changes between two executions of the same case is a violation, reported as such
                    v["what"] = "[result differs between two executions of the same case: it depends on scheduling or on what ran earlier in the process] " + v["what"]
                else:
                    print("HARNESS-ERROR: violation %s did not reproduce on re-execution (got %s)" % (key, sorted(last)[:5]), flush=True)
                    return 2
        path = os.path.join(REPLAY_DIR, prop_id, "%03d.json" % n)
        with open(path, "w") as fh:
            json.dump({"property": prop_id, "key": key, "what": v["what"], "case": v["case"], "history": history,
                       "observed": v["observed"], "expected": v["expected"],
                       "occurrences": len(by_key[key])}, fh, indent=1)
        if reported < 25:
            print("VIOLATION property=%s replay=%s" % (prop_id, path), flush=True)
            print("  key=%s occurrences=%d :: %s" % (key, len(by_key[key]), v["what"][:400]), flush=True)
        reported += 1
        rc = 1
    if reported > 25:
        print("  (... %d further distinct violation keys written to %s)" % (reported - 25, os.path.join(REPLAY_DIR, prop_id)), flush=True)
    for pat, (ent, cnt) in sorted(known_hits.items()):
        print("KNOWN-FINDING: property=%s %s [%s; %d occurrence(s) this run]" % (prop_id, ent.get("what", ""), ent.get("id", pat), cnt), flush=True)

    wall = time.time() - t_start
    ev = {
        "property_id": prop_id,
        "tier": tier,
        "seed": int(seed),
        "level": getattr(mod, "LEVEL", "exploration"),
        "coverage": cov,
        "assumptions": list(getattr(mod, "ASSUMPTIONS", [])),
        "wall_s": round(wall, 2),
        "violations": len(new_keys),
        "known_findings_hit": sorted(e[0].get("id", k) for k, e in known_hits.items()),
    }
    os.makedirs(EVIDENCE_DIR, exist_ok=True)
    with open(os.path.join(EVIDENCE_DIR, prop_id + ".json"), "w") as fh:
        json.dump(ev, fh, indent=1, sort_keys=False)
    ok, msg = validate_evidence(ev)
    if not ok:
        print("HARNESS-ERROR: evidence does not validate: %s" % msg, flush=True)
        return 2
    print("[%s] done: evaluations=%d distinct_nontrivial=%d violations=%d known=%d wall=%.1fs" % (
        prop_id, evals, nontrivial, len(new_keys), len(known_hits), wall), flush=True)
    return rc


def _rerun_child(args):
    prop_id, case, history = args
    mod = _load_mod(prop_id)
    try:
        for hk, hp in history or ():
            mod.KINDS[hk](hp)
        kind, params = case
        r = mod.KINDS[kind](params)
    except Exception:
        return {"error": traceback.format_exc()}
    return {"keys": sorted({v["key"] for v in r["viol"]})}


def _rerun_keys(mod, case, prop_id=None, history=None):
    """re-execute one case in a freshly forked process: its only history is `history` (a list of cases run first) and the case itself"""
    import multiprocessing as mp

    prop_id = prop_id or mod.ID
    ctx = mp.get_context("fork")
    nthreads = max(1, (os.cpu_count() or 16) // 4)
    pool = ctx.Pool(1, initializer=_worker_init, initargs=(prop_id, nthreads), maxtasksperchild=1)
    try:
        out = pool.apply(_rerun_child, ((prop_id, _jsonable(case), _jsonable(history)),))
    finally:
        pool.close()
        pool.join()
    if "error" in out:
        print(out["error"], flush=True)
        return None
    return set(out["keys"])


def _replay(mod, path):
    with open(path) as fh:
        rep = json.load(fh)
    kind, params = rep["case"]
    print("replaying %s case kind=%s params=%s" % (mod.ID, kind, json.dumps(params)[:500]))
    hist = rep.get("history")
    if hist:
        print("  after %d earlier case(s) in the same process" % len(hist))
    keys1 = _rerun_keys(mod, (kind, params), history=hist)
    keys2 = _rerun_keys(mod, (kind, params), history=hist)
    if keys1 is None or keys2 is None:
        print("HARNESS-ERROR: replay crashed")
        return 2
    if keys1 != keys2:
        print("HARNESS-ERROR: replay is not deterministic: %s vs %s" % (sorted(keys1), sorted(keys2)))
        return 2
    if hasattr(mod, "worker_init"):  # only now: the two re-executions above were forked from a process that had run nothing
        mod.worker_init()
    for hk, hp in hist or ():
        mod.KINDS[hk](hp)
    r = mod.KINDS[kind](params)
    for v in r["viol"]:
        print("  key=%s :: %s" % (v["key"], v["what"]))
        print("     observed=%s expected=%s" % (json.dumps(v["observed"])[:300], json.dumps(v["expected"])[:300]))
    if rep["key"] in keys1:
        print("VIOLATION property=%s replay=%s" % (mod.ID, path))
        return 1
    print("replay: recorded violation key %s no longer occurs (now: %s)" % (rep["key"], sorted(keys1)[:5]))
    return 0


# ----------------------------------------------------------------------------- evidence validation
def validate_evidence(ev):
    """Light structural validation (mirrors EVIDENCE.schema.json; the full jsonschema
    validation is run by tools/validate.py under python3-vt)."""
    for k in ("property_id", "tier", "seed", "level", "coverage", "wall_s"):
        if k not in ev:
            return False, "missing " + k
    cov = ev["coverage"]
    lvl = ev["level"]
    generic_ok = (
        isinstance(cov.get("evaluations"), int) and cov["evaluations"] >= 1
        and isinstance(cov.get("distinct_nontrivial"), int) and cov["distinct_nontrivial"] >= 2
        and isinstance(cov.get("samples"), list) and len(cov["samples"]) >= 1
    )
    if lvl in ("exploration", "fault_enumeration"):
        if not (generic_ok and isinstance(cov.get("rule"), str)):
            return False, "generic coverage keys missing/too small: evaluations=%s distinct=%s" % (
                cov.get("evaluations"), cov.get("distinct_nontrivial"))
    elif lvl == "model_checking":
        keys = ("states", "transitions", "traces_validated_against_impl", "samples")
        if all(k in cov for k in keys):
            if not (cov["states"] >= 1 and cov["transitions"] >= 1 and len(cov["samples"]) >= 1):
                return False, "model_checking counts too small"
        elif not generic_ok:
            return False, "model_checking fallback keys missing"
    return True, ""
