"""vexec - virtual thread-pool executor for code that uses ThreadPoolExecutor + as_completed.

The module under test gets its `ThreadPoolExecutor` and `as_completed` globals rebound to the
classes below. Every submitted callable runs in a real Python thread that owns a semaphore baton:
only the thread holding the baton runs; a worker parks at every *sync point* (a call of
`sync(worker_id)` placed by the harness in front of the operation that matters, e.g. the backend
call) and when it finishes. The explorer's schedule is the sequence of worker ids that get the
baton at successive decision points; `as_completed` yields futures in the order the workers
finished under that schedule. Schedules are enumerated exhaustively by DFS (stateless: each
schedule prefix is replayed on a fresh run; a prefix that does not replay identically is a hard error).
"""
import threading


class _Fut:
    def __init__(self, wid):
        self.wid = wid
        self._result = None
        self._exc = None
        self.done_flag = False

    def result(self, timeout=None):
        if self._exc is not None:
            raise self._exc
        return self._result


class Scheduler:
    """one execution under a fixed schedule prefix; choices beyond the prefix take the lowest enabled worker id"""

    def __init__(self, prefix):
        self.prefix = list(prefix)
        self.trace = []          # (enabled tuple, chosen) at each decision point
        self.workers = {}        # wid -> dict(thread, sem, state)
        self.main_sem = threading.Semaphore(0)
        self.completed = []      # wids in completion order
        self.nsync = 0
        self.local = threading.local()

    # ---- called from worker threads
    def sync(self):
        wid = getattr(self.local, "wid", None)
        if wid is None:
            return          # not a scheduled worker (e.g. the main thread calling the backend directly)
        w = self.workers[wid]
        w["state"] = "parked"
        self.nsync += 1
        self.main_sem.release()      # hand the baton back to the scheduler
        w["sem"].acquire()           # wait to be scheduled again
        w["state"] = "running"

    def _run_worker(self, wid, fut, fn, args, kwargs):
        self.local.wid = wid
        w = self.workers[wid]
        w["sem"].acquire()           # wait for the first baton
        w["state"] = "running"
        try:
            fut._result = fn(*args, **kwargs)
        except BaseException as exc:   # noqa
            fut._exc = exc
        fut.done_flag = True
        w["state"] = "done"
        self.completed.append(wid)
        self.main_sem.release()

    # ---- called from the main thread
    def submit(self, fn, *args, **kwargs):
        wid = len(self.workers)
        fut = _Fut(wid)
        th = threading.Thread(target=self._run_worker, args=(wid, fut, fn, args, kwargs), daemon=True)
        self.workers[wid] = {"thread": th, "sem": threading.Semaphore(0), "state": "new", "fut": fut}
        th.start()
        return fut

    def step(self):
        """give the baton to one enabled worker according to the schedule; returns False when all workers are done"""
        enabled = tuple(sorted(w for w, d in self.workers.items() if d["state"] in ("new", "parked")))
        if not enabled:
            return False
        i = len(self.trace)
        if i < len(self.prefix):
            choice = self.prefix[i]
            if choice not in enabled:
                raise RuntimeError("schedule prefix diverged at decision %d: %r not in enabled %r" % (i, choice, enabled))
        else:
            choice = enabled[0]
        self.trace.append((enabled, choice))
        self.workers[choice]["sem"].release()
        self.main_sem.acquire()      # wait until that worker parks again or finishes
        return True

    def as_completed(self, futures):
        yielded = set()
        while True:
            for wid in list(self.completed):
                if wid not in yielded:
                    yielded.add(wid)
                    yield self.workers[wid]["fut"]
            if not self.step():
                break
        for wid in list(self.completed):
            if wid not in yielded:
                yielded.add(wid)
                yield self.workers[wid]["fut"]


def make_bindings(sched):
    class VExecutor:
        def __init__(self, max_workers=None, **kw):
            self.max_workers = max_workers

        def __enter__(self):
            return self

        def __exit__(self, *a):
            # drain: run every remaining worker to completion
            while sched.step():
                pass
            return False

        def submit(self, fn, *args, **kwargs):
            return sched.submit(fn, *args, **kwargs)

    return VExecutor, sched.as_completed


def explore(run_once, max_schedules=100000, preemption_bound=None):
    """DFS over schedules. run_once(prefix) -> (trace, observation). Returns list of (schedule, observation).
    preemption_bound: maximum number of decision points at which a worker other than the previously running (still enabled) one is chosen."""
    out = []
    stack = [[]]
    seen = set()
    while stack:
        prefix = stack.pop()
        trace, obs = run_once(prefix)
        choices = [c for _, c in trace]
        if choices[:len(prefix)] != list(prefix):
            raise RuntimeError("replay divergence")
        key = tuple(choices)
        if key in seen:
            continue
        seen.add(key)
        out.append((choices, obs))
        if len(out) >= max_schedules:
            break
        # branch on every decision point at or after the prefix
        for i in range(len(prefix), len(trace)):
            enabled, chosen = trace[i]
            for alt in enabled:
                if alt == chosen:
                    continue
                cand = choices[:i] + [alt]
                if preemption_bound is not None:
                    pre = 0
                    prev = None
                    for j, c in enumerate(cand):
                        en = trace[j][0] if j < len(trace) else ()
                        if prev is not None and c != prev and prev in en:
                            pre += 1
                        prev = c
                    if pre > preemption_bound:
                        continue
                stack.append(cand)
    return out
