"""C07 - the polynomial Hamiltonian is the Taylor expansion of the true CR3BP Hamiltonian.

Lattice: mu x point (L1,L2,L3 collinear expansion; L4,L5 triangular expansion) x degree N x
directions (12 axes + 64 corners of {-1,+1}^6, normalised) x radius ladder r0 * 2^-k.
(i)   (E(S(z)) - E(S(0)))/gamma^2 - H_N(z)  = O(r^(N+1))   with S the library's own local->synodic
      map and E the reference energy;
(ii)  Hamilton's equations of H_N pushed forward by dS equal the CR3BP field at S(z) up to O(r^N);
(iii) synodic2local(local2synodic(z)) = z.
"""
import math

import numpy as np

from engine.core import res, violation, seed_offsets

ID = "C07"
LEVEL = "exploration"
WORKERS = {"quick": 12, "thorough": 16}
RULE = ("complete product mu x {L1..L5} x degree N x 76 directions x radius ladder (5 rungs), plus build histories in newly forked processes in which every ordered pair of builds over {L1..L5} x {3,4} occurs adjacently "
        "(and the same build for two mass ratios alternately); error exponent from the ladder (overall slope >= declared exponent - 0.75); "
        "non-trivial = ladder with >= 2 halvings above the rounding floor; distinct = (mu, point, N, direction)")
ASSUMPTIONS = [
    "reference energy E = v^2/2 - (x^2+y^2)/2 - (1-mu)/r1 - mu/r2 and reference field written in the harness",
    "radius r0 = 0.35 in local units (nearest primary at distance 1 for collinear points; 0.35 synodic units for triangular points)",
    "rounding floor 1e-13 relative to the size of the energy / field",
]

_L = {}


def worker_init():
    if _L:
        return
    from hiten.system.base import System
    from hiten.algorithms.hamiltonian import hamiltonian as hh
    from hiten.algorithms.hamiltonian import transforms as tr
    from hiten.algorithms.polynomial import base as pb
    from hiten.algorithms.polynomial import operations as ops

    _L.update(System=System, hh=hh, tr=tr, pb=pb, ops=ops)


def E_ref(s, mu):
    x, y, z, vx, vy, vz = s
    r1 = math.sqrt((x + mu) ** 2 + y * y + z * z)
    r2 = math.sqrt((x - 1 + mu) ** 2 + y * y + z * z)
    return 0.5 * (vx * vx + vy * vy + vz * vz) - 0.5 * (x * x + y * y) - (1 - mu) / r1 - mu / r2


def f_ref(s, mu):
    x, y, z, vx, vy, vz = s
    r1 = math.sqrt((x + mu) ** 2 + y * y + z * z)
    r2 = math.sqrt((x - 1 + mu) ** 2 + y * y + z * z)
    return np.array([vx, vy, vz, 2 * vy + x - (1 - mu) * (x + mu) / r1 ** 3 - mu * (x - 1 + mu) / r2 ** 3,
                     -2 * vx + y - (1 - mu) * y / r1 ** 3 - mu * y / r2 ** 3, -(1 - mu) * z / r1 ** 3 - mu * z / r2 ** 3])


def directions():
    out = []
    for i in range(6):
        for sgn in (1.0, -1.0):
            v = np.zeros(6); v[i] = sgn
            out.append(v)
    for m in range(64):
        v = np.array([1.0 if (m >> k) & 1 else -1.0 for k in range(6)])
        # unequal weights so that no direction is accidentally symmetric
        v = v * np.array([1.0, 0.8, 0.6, 0.7, 0.9, 0.5])
        out.append(v / np.linalg.norm(v))
    return out


def _slope(errs, floor):
    """exponent from a radius ladder: median of the last (up to 3) pairwise log2 ratios above the rounding floor.
    The coarsest rungs may be pre-asymptotic (the error can change sign there), the finest ones hit the floor."""
    m = 0
    while m + 1 < len(errs) and errs[m] > floor and errs[m + 1] > floor:
        m += 1
    if m == 0:
        return 0, None
    pairs = [math.log2(errs[i] / errs[i + 1]) for i in range(m)]
    tail = sorted(pairs[-3:])
    return m, tail[len(tail) // 2]


def k_point(params):
    hh, tr, pb, ops = _L["hh"], _L["tr"], _L["pb"], _L["ops"]
    mu_in, Ln, degs = params["mu"], params["point"], params["degs"]
    system = _L["System"].from_mu(mu_in)
    mu = float(system.mu)
    pt = system.get_libration_point(Ln)
    collinear = Ln <= 3
    viol = {}
    n = 0
    nontriv = 0
    stats = {}
    if collinear:
        S = lambda z: np.asarray(tr._local2synodic_collinear(pt, z))
        Sinv = lambda s: np.asarray(tr._synodic2local_collinear(pt, s))
        gamma = float(pt.dynamics.gamma)
        scale = gamma ** 2
        build = hh._build_physical_hamiltonian_collinear
    else:
        S = lambda z: np.asarray(tr._local2synodic_triangular(pt, z))
        Sinv = lambda s: np.asarray(tr._synodic2local_triangular(pt, s))
        gamma = 1.0
        scale = 1.0
        build = hh._build_physical_hamiltonian_triangular
    s0 = S(np.zeros(6))
    E0 = E_ref(s0, mu)
    # linear part of S (S is affine)
    A = np.column_stack([S(e) - s0 for e in np.eye(6)])
    # the orientation-preserving alternative (rotation by pi between the two frames instead of the x-reflection): flip Y and the velocity that keeps dX/dt = Vx
    tag0 = "mu=%g L%d" % (mu, Ln)
    origin_bad = False
    posL = np.asarray(pt.position, dtype=float)
    if float(np.max(np.abs(s0[:3] - posL))) > 1e-10 or float(np.max(np.abs(s0[3:]))) > 1e-10 or float(np.max(np.abs(f_ref(s0, mu)))) > 1e-8:
        origin_bad = True
        viol.setdefault("origin/%s" % ("collinear" if collinear else "triangular"), violation("origin/%s" % ("collinear" if collinear else "triangular"),
                        "the local origin is not mapped to the libration point at rest: local2synodic(0) = %s, point position %s [%s]" % (np.round(s0, 6).tolist(), posL.tolist(), tag0), s0, posL))
    A_true = None
    if collinear:
        sg = float(pt.dynamics.sign)
        # candidate repair used only to *diagnose* a failure of (ii): the two frames differ by a rotation by pi about z (both in-plane axes
        # reversed); the library reverses X only.  Reversing Y and the velocity component that then violates V = dX/dt (Vx for sign=-1
        # points, Vy for sign=+1 points) gives the orientation-preserving map.
        D = np.diag([1.0, -1.0, 1.0, -1.0, 1.0, 1.0]) if sg < 0 else np.diag([1.0, -1.0, 1.0, 1.0, -1.0, 1.0])
        A_true = D @ A
    # (iii) inverse maps
    for u in directions()[:20]:
        z = 0.3 * u
        back = Sinv(S(z))
        n += 1
        if float(np.max(np.abs(back - z))) > 1e-12:
            viol.setdefault("inverse_map", violation("inverse_map", "synodic2local(local2synodic(z)) != z (max diff %.3e) [%s]" % (float(np.max(np.abs(back - z))), tag0), back, z))
            break
    r0 = params["r0"]
    for N in degs:
        polyH = build(pt, N)
        psi, clmo = pb._init_index_tables(N)
        enc = pb._create_encode_dict_from_clmo(clmo)
        jac = ops._polynomial_jacobian(polyH, N, psi, clmo, enc)

        def H(z):
            return complex(ops._polynomial_evaluate(polyH, z.astype(np.complex128), clmo)).real

        def XH(z):
            g = np.array([complex(ops._polynomial_evaluate(jac[i], z.astype(np.complex128), clmo)).real for i in range(6)])
            return np.concatenate((g[3:], -g[:3]))

        worst_e, worst_f = 99.0, 99.0
        for di, u in enumerate(directions() if params["all_dirs"] else directions()[:12] + directions()[12::4]):
            n += 1
            errs_e, errs_f, errs_f_alt = [], [], []
            for k in range(5):
                z = r0 * 2.0 ** (-k) * u
                s = S(z)
                errs_e.append(abs((E_ref(s, mu) - E0) / scale - H(z)))
                push = A @ XH(z)
                fr = f_ref(s, mu)
                errs_f.append(float(np.max(np.abs(push - fr))))
            sc_e = max(abs(E0) / scale * 1e-13, 1e-15)
            m, sl = _slope(errs_e, sc_e * 50)
            if m >= 2:
                nontriv += 1
                worst_e = min(worst_e, sl)
                if sl < N + 1 - 0.75:
                    key = "energy_expansion/%s" % ("triangular/origin_not_equilibrium" if (not collinear and origin_bad) else "L%d/N%d" % (Ln, N))
                    viol.setdefault(key, violation(key, "(E(S(z))-E(S(0)))/gamma^2 - H_N(z) shrinks with exponent %.2f < N+1=%d along direction %s: %s [%s]" % (
                        sl, N + 1, np.round(u, 3).tolist(), ["%.2e" % e for e in errs_e], tag0), errs_e, N + 1, ("dir_one", {"mu": mu_in, "point": Ln, "N": N, "dir": u.tolist(), "r0": r0})))
            sc_f = 1e-13 * (1 + float(np.max(np.abs(f_ref(s0 + 0.0, mu)))) + gamma)
            m2, sl2 = _slope(errs_f, sc_f * 50)
            if m2 >= 2:
                worst_f = min(worst_f, sl2)
                if sl2 < N - 0.75:
                    diag = "generic/L%d/N%d" % (Ln, N)
                    if not collinear and origin_bad:
                        diag = "origin_not_equilibrium"
                    if collinear:
                        # diagnosis: the orientation-preserving map between the two frames (rotation by pi about z:
                        # X=-(sgn*g*x+mu+a), Y=-sgn*g*y, Z=g*z, V=d/dt) instead of the library's map
                        errs_alt = []
                        for k in range(5):
                            z = r0 * 2.0 ** (-k) * u
                            errs_alt.append(float(np.max(np.abs(A_true @ XH(z) - f_ref(A_true @ z + s0, mu)))))
                        m3, sl3 = _slope(errs_alt, sc_f * 50)
                        if (m3 >= 2 and (sl3 >= N - 0.75 or sl3 >= sl2 + 0.9)) or (m3 < 2 and errs_alt[-1] < 1e-3 * errs_f[-1]):
                            diag = "reflection_instead_of_rotation"
                    key = "field_pushforward/%s/%s" % ("collinear" if collinear else "triangular", diag)
                    viol.setdefault(key, violation(key, "Hamilton's equations of H_%d mapped through the local->synodic map differ from the CR3BP accelerations with exponent %.2f (declared O(r^%d)) along %s: %s [%s]" % (
                        N, sl2, N, np.round(u, 3).tolist(), ["%.2e" % e for e in errs_f], tag0), errs_f, N, ("dir_one", {"mu": mu_in, "point": Ln, "N": N, "dir": u.tolist(), "r0": r0})))
        stats["min_energy_exponent_minus_N_L%d" % Ln] = min(stats.get("min_energy_exponent_minus_N_L%d" % Ln, 99.0), worst_e - N)
    return res(evals=n, nontrivial=nontriv, viol=list(viol.values()), stats=stats, sample={"mu": mu, "point": "L%d" % Ln, "degrees": degs, "ladders": n})


def k_dir_one(params):
    r = k_point({"mu": params["mu"], "point": params["point"], "degs": [params["N"]], "r0": params["r0"], "all_dirs": True})
    return r


def k_history(params):
    """several expansions built one after the other in one process: each must still be the expansion of *its* point and degree
    (a process-wide memo keyed by less than (mu, point, degree) shows here; every re-execution runs in a freshly forked process,
    so the sequence below is the whole history)"""
    viol, n, nt = {}, 0, 0
    names = ["mu=%g L%d N%d" % tuple(x) for x in params["seq"]]
    for i, (mu, Ln, N) in enumerate(params["seq"]):
        r = k_point({"mu": mu, "point": Ln, "degs": [N], "r0": params["r0"], "all_dirs": False})
        n += r["evals"]
        nt += r["nontrivial"]
        for v in r["viol"]:
            key = "history/" + v["key"]
            viol.setdefault(key, violation(key, "build %d of the sequence %s in one process: %s" % (i + 1, names, v["what"]), v["observed"], v["expected"], ("history", params)))
    return res(evals=n, nontrivial=nt, viol=list(viol.values()), sample={"history": names})


FRESH_KINDS = ("history",)
NONDETERMINISM_IS_VIOLATION = True  # the expansion is a function of (mu, point, degree): a result that changes with what ran before is a violation
KINDS = {"point": k_point, "dir_one": k_dir_one, "history": k_history}


def cases(tier, seed):
    o = seed_offsets(seed, 1, 0.1)
    mus = [0.01215, 3.0e-6, 0.1] if tier == "quick" else [3.0e-6, 9.5e-4, 0.01215, 0.1 * (1 + o[0]), 0.3]
    out = []
    for mu in mus:
        for Ln in (1, 2, 3, 4, 5):
            if Ln >= 4 and mu > 0.038:
                continue
            degs = [2, 3, 4, 6, 8] if tier == "quick" else [2, 3, 4, 5, 6, 7, 8, 9, 10]
            for dg in degs:
                out.append(("point", {"mu": mu, "point": Ln, "degs": [dg], "r0": 0.35 * (1 + 0.2 * o[0]), "all_dirs": tier != "quick"}))
    # build histories, each in a newly forked process: for every element a of {L1..L5} x {3, 4} the sequence a b1 a b2 a b3 ... over all
    # other elements (every ordered pair of distinct builds occurs adjacently, and every element is built again after every other one),
    # and the same (point, degree) for two mass ratios alternately
    alpha = [(Ln, N) for Ln in (1, 2, 3, 4, 5) for N in ((3, 4) if tier == "quick" else (3, 4, 6))]
    r0 = 0.35 * (1 + 0.2 * o[0])
    for a in alpha:
        seq = []
        for b in alpha:
            if b != a:
                seq += [[0.01215, a[0], a[1]], [0.01215, b[0], b[1]]]
        seq.append([0.01215, a[0], a[1]])
        out.append(("history", {"seq": seq, "r0": r0}))
    seq = []
    for a in alpha:
        seq += [[0.01215, a[0], a[1]], [3.0e-6, a[0], a[1]], [0.01215, a[0], a[1]]]
    out.append(("history", {"seq": seq, "r0": r0}))
    return out
