"""C02 - integrators deliver their declared order and requested tolerance.

1. trees : every rooted tree up to the declared order (200 trees up to order 8) against the
           coefficient arrays the integrator module itself imports; embedded error weights;
           RK45 dense-output polynomial (continuous order conditions, coefficient-wise).
2. step  : one step of every stepping kernel (generic + Hamiltonian twins + the
           centre-manifold copy) equals a textbook step computed in the harness from the same table.
3. ladder: global-error ladders on a menu of right-hand sides with closed-form / reference
           solutions for fixed orders {4,6,8}, through Integrator.integrate and System.propagate.
4. adaptive: tolerance ladders x output grids (dense output exercised) x RHS menu x {RK45, DOP853},
           generic and Hamiltonian fast path; dense-output order ladder with forced step size.
"""
import math

import numpy as np

from engine.core import res, violation, seed_offsets
from engine import trees as T

ID = "C02"
LEVEL = "exploration"
WORKERS = {"quick": 12, "thorough": 16}
RULE = ("one integrator instance reused over every ordered pair of problems (A, B, A) vs exact solutions and vs a new instance; all rooted trees of order <= p for each tableau (complete); one-step conformance of every stepping kernel x RHS menu x step sizes; "
        "global-error ladders (RHS menu x orders 4,6,8 x 4-5 rungs) and tolerance ladders (RHS menu x orders 5,8 x 5 tolerances x 3 output grids); "
        "non-trivial = ladder has >= 2 rungs above the rounding floor / tree of order >= 2; distinct = (tableau, tree) and (rhs, order, grid) tuples")
ASSUMPTIONS = [
    "order is decided by the exponent measured on a step ladder (>= p - 0.6 on every pair of rungs above the rounding floor) and by the order conditions, not by error constants",
    "adaptive accuracy: max error over all requested output times <= 300 * tol * (1+|y|) and decreasing with tol until the 1e-12 floor",
    "reference solutions: closed forms (rotation, exp(sin t), Jacobi elliptic functions via mpmath, Riccati) or scipy DOP853 at rtol 1e-13 on a harness-side field",
]

_L = {}


def worker_init():
    if _L:
        return
    import numba
    from hiten.algorithms.integrators import rk
    from hiten.algorithms.dynamics.rhs import create_rhs_system

    _L.update(numba=numba, rk=rk, create_rhs_system=create_rhs_system)


# ------------------------------------------------------------------ 1. trees
def _tableaux():
    rk = _L["rk"]
    out = {}
    out["RK4"] = (np.asarray(rk.RK4_A), np.asarray(rk.RK4_B), np.asarray(rk.RK4_C), 4)
    out["RK6"] = (np.asarray(rk.RK6_A), np.asarray(rk.RK6_B), np.asarray(rk.RK6_C), 6)
    out["RK8"] = (np.asarray(rk.RK8_A), np.asarray(rk.RK8_B), np.asarray(rk.RK8_C), 8)
    A = np.zeros((6, 6))
    A[:, :5] = np.asarray(rk.RK45_A)
    out["RK45"] = (A, np.asarray(rk.RK45_B_HIGH), np.asarray(rk.RK45_C), 5)
    s = len(rk.DOP853_B)
    out["DOP853"] = (np.asarray(rk.DOP853_A)[:s, :s], np.asarray(rk.DOP853_B), np.asarray(rk.DOP853_C)[:s], 8)
    return out


def _sq(A, s):
    B = np.zeros((s, s))
    a = np.asarray(A)
    B[: min(s, a.shape[0]), : min(s, a.shape[1])] = a[:s, :s]
    return B


def k_trees(params):
    name = params["tableau"]
    A, b, c, p = _tableaux()[name]
    s = len(b)
    A = _sq(A, s)
    c = np.asarray(c)[:s]
    viol = []
    n, bad = T.check_order(A, b, c, p)
    for t, o, r in bad[:1]:
        what = ("row sum of stage %d differs from c by %.3e" % (t[1], r)) if isinstance(t, tuple) and t and t[0] == "rowsum" else \
            "order condition of tree %s (order %d) violated: residual %.3e; declared order %d, %d of %d conditions fail" % (T.to_str(t), o, r, p, len(bad), n)
        viol.append(violation("trees/%s/order%d" % (name, o), "%s: %s" % (name, what), r, 0.0))
    if np.any(np.triu(A) != 0):
        viol.append(violation("trees/%s/explicit" % name, "tableau is not strictly lower triangular"))
    return res(evals=n, sigs=["%s:%s" % (name, T.to_str(t)) for t in T.all_trees(p) if T.order(t) >= 2], viol=viol,
               sample={"tableau": name, "declared_order": p, "trees_checked": n, "failing": len(bad)})


def k_trees_embedded(params):
    rk = _L["rk"]
    viol = []
    n = 0
    sigs = []
    # --- RK45: 7-stage FSAL extension
    A7 = np.zeros((7, 7))
    A7[:6, :5] = np.asarray(rk.RK45_A)
    A7[6, :6] = np.asarray(rk.RK45_B_HIGH)
    E = np.asarray(rk.RK45_E)
    P = np.asarray(rk.RK45_P)
    bl = np.zeros(7)
    bl[:6] = np.asarray(rk.RK45_B_LOW)
    bh = np.zeros(7)
    bh[:6] = np.asarray(rk.RK45_B_HIGH)
    for t in T.all_trees(4):
        n += 1
        sigs.append("rk45E:" + T.to_str(t))
        phi = T.stage_weights(t, A7)
        r = float(E @ phi)
        if abs(r) > 1e-12:
            viol.append(violation("trees/RK45/E", "RK45 error weights do not annihilate tree %s of order %d (residual %.3e): the error estimate is not O(h^5)" % (T.to_str(t), T.order(t), r), r, 0.0))
            break
    # dense output: sum_i P[i,c] Phi_i(t) = [c+1 == rho(t)]/gamma(t) for rho <= 4 (continuous order 4)
    for t in T.all_trees(4):
        phi = T.stage_weights(t, A7)
        for cidx in range(P.shape[1]):
            n += 1
            sigs.append("rk45P:%s:%d" % (T.to_str(t), cidx))
            r = float(P[:, cidx] @ phi) - ((1.0 / T.gamma(t)) if cidx + 1 == T.order(t) else 0.0)
            if abs(r) > 1e-11:
                viol.append(violation("trees/RK45/P", "RK45 dense-output weights: theta^%d coefficient for tree %s (order %d) has residual %.3e" % (cidx + 1, T.to_str(t), T.order(t), r), r, 0.0))
                break
    # at theta = 1 the interpolant must reproduce the step: sum_c P[i,c] = b_i
    r = np.max(np.abs(P.sum(axis=1) - bh))
    n += 1
    if r > 1e-12:
        viol.append(violation("trees/RK45/P_endpoint", "RK45 dense output at theta=1 differs from the step weights by %.3e" % r, r, 0.0))
    # --- DOP853: 13-stage extension, E5 annihilates order <= 5, E3 order <= 3
    s = len(rk.DOP853_B)
    A13 = np.zeros((s + 1, s + 1))
    A13[:s, :s] = np.asarray(rk.DOP853_A)[:s, :s]
    A13[s, :s] = np.asarray(rk.DOP853_B)
    for nm, Ev, q in (("E5", np.asarray(rk.DOP853_E5), 5), ("E3", np.asarray(rk.DOP853_E3), 3)):
        for t in T.all_trees(q):
            n += 1
            sigs.append("dop%s:%s" % (nm, T.to_str(t)))
            r = float(Ev @ T.stage_weights(t, A13))
            if abs(r) > 1e-12:
                viol.append(violation("trees/DOP853/" + nm, "DOP853 %s does not annihilate tree %s of order %d (residual %.3e)" % (nm, T.to_str(t), T.order(t), r), r, 0.0))
                break
    # --- DOP853 extended stages (used by dense output): row sums = c and stage order conditions up to 7 for the 3 extra stages
    A16 = np.asarray(rk.DOP853_A)
    C16 = np.asarray(rk.DOP853_C)
    rs = np.max(np.abs(A16.sum(axis=1) - C16))
    n += 1
    if rs > 1e-12:
        viol.append(violation("trees/DOP853/rowsum_ext", "DOP853 extended tableau: row sums differ from c by %.3e" % rs, rs, 0.0))
    return res(evals=n, sigs=sigs, viol=viol, sample={"embedded_conditions": n})


# ------------------------------------------------------------------ RHS menu
W = 1.3
M_ELL = 0.6


def f_rot(t, y):
    out = np.empty(2)
    out[0] = 1.3 * y[1]
    out[1] = -1.3 * y[0]
    return out


def f_nonauto(t, y):
    out = np.empty(2)
    out[0] = np.cos(t) * y[0]
    out[1] = -2.0 * t * y[1] / (1.0 + t * t)
    return out


def f_euler(t, y):
    out = np.empty(3)
    out[0] = y[1] * y[2]
    out[1] = -y[0] * y[2]
    out[2] = -0.6 * y[0] * y[1]
    return out


def f_riccati(t, y):
    out = np.empty(2)
    out[0] = (1.0 + np.cos(t)) * y[0] * y[0]
    out[1] = -y[1] * y[1] * (1.0 + 0.5 * np.sin(2.0 * t))
    return out


def _exact(name, y0, t):
    import mpmath as mp

    if name == "rot":
        c, s = math.cos(W * t), math.sin(W * t)
        return np.array([c * y0[0] + s * y0[1], -s * y0[0] + c * y0[1]])
    if name == "nonauto":
        return np.array([y0[0] * math.exp(math.sin(t)), y0[1] / (1.0 + t * t)])
    if name == "euler":
        # y0 = (0, 1, 1) scaled: general solution through amplitude a: y = (a sn(a t), a cn(a t), a dn(a t))
        a = y0[1]
        u = a * t
        return np.array([a * float(mp.ellipfun("sn", u, m=M_ELL)), a * float(mp.ellipfun("cn", u, m=M_ELL)), a * float(mp.ellipfun("dn", u, m=M_ELL))])
    if name == "riccati":
        return np.array([1.0 / (1.0 / y0[0] - t - math.sin(t)), 1.0 / (1.0 / y0[1] + t - 0.25 * math.cos(2.0 * t) + 0.25)])
    raise KeyError(name)


PROBLEMS = {
    "rot": (f_rot, 2, 2.0),
    "nonauto": (f_nonauto, 2, 2.0),
    "euler": (f_euler, 3, 2.0),
    "riccati": (f_riccati, 2, 1.2),
}


def _y0s(name, seed):
    o = seed_offsets(seed, 4, 0.1)
    if name == "rot":
        return [[1.0 + o[0], 0.0], [0.3, -0.8 + o[1]], [-0.5 + o[2], 0.5]]
    if name == "nonauto":
        return [[1.0 + o[0], 1.0], [-0.5, 2.0 + o[1]], [0.25 + o[2], -1.0]]
    if name == "euler":
        return [[0.0, 1.0 + o[0], 1.0 + o[0]], [0.0, 0.7 + o[1], 0.7 + o[1]], [0.0, 1.3 + o[2], 1.3 + o[2]]]
    if name == "riccati":
        return [[0.2 + 0.2 * o[0], 0.5], [0.15, 0.8 + o[1]], [-0.4 + o[2], 0.25]]


def _system(name):
    key = "sys_" + name
    if key not in _L:
        f, dim, _ = PROBLEMS[name]
        _L[key] = _L["create_rhs_system"](f, dim, name="verif-" + name)
    return _L[key]


# ------------------------------------------------------------------ 2. one-step conformance
def _textbook_step(f, t, y, h, A, b, c):
    s = len(b)
    k = np.zeros((s, len(y)))
    for i in range(s):
        ys = y + h * sum(A[i, j] * k[j] for j in range(i)) if i else y.copy()
        k[i] = f(t + c[i] * h, np.asarray(ys, dtype=float))
    return y + h * sum(b[i] * k[i] for i in range(s)), k


def _ham_problem():
    if "ham" not in _L:
        from engine import hamref

        p = hamref.ham_menu()["cubic_mixed"]
        _L["ham"] = (p, hamref.make_hamsys(p, 3), hamref.grad_py(p))
    return _L["ham"]


def k_step(params):
    rk, numba = _L["rk"], _L["numba"]
    name = params["problem"]
    viol = []
    n = 0
    tabs = _tableaux()
    if name == "ham":
        p, hs, fpy = _ham_problem()
        jac, clmo, ndof = hs.rhs_params
        y = np.array(params["y0"], dtype=float)
    else:
        f, dim, _ = PROBLEMS[name]
        fj = _system(name).rhs
        fpy = f
        y = np.array(params["y0"], dtype=float)
    t0 = params["t0"]
    for h in params["hs"]:
        for tn in ("RK4", "RK6", "RK8", "RK45", "DOP853"):
            A, b, c, _ = tabs[tn]
            s = len(b)
            yref, kref = _textbook_step(fpy, t0, y, h, _sq(A, s), b, np.asarray(c)[:s])
            outs = {}
            if name == "ham":
                if tn in ("RK4", "RK6", "RK8"):
                    outs["rk_embedded_step_ham_jit_kernel"] = rk.rk_embedded_step_ham_jit_kernel(t0, y, h, A, b, np.empty(0), c, False, jac, clmo, ndof)[0]
                    from hiten.algorithms.poincare.centermanifold.backend import _integrate_rk_ham
                    outs["centermanifold._integrate_rk_ham"] = _integrate_rk_ham(y, np.array([t0, t0 + h]), A, b, c, jac, clmo)[1]
                elif tn == "RK45":
                    outs["rk45_step_ham_jit_kernel"] = rk.rk45_step_ham_jit_kernel(t0, y, h, rk.RK45_A, rk.RK45_B_HIGH, rk.RK45_C, rk.RK45_E, jac, clmo, ndof)[0]
                else:
                    outs["dop853_step_ham_jit_kernel"] = rk.dop853_step_ham_jit_kernel(t0, y, h, rk.DOP853_A, rk.DOP853_B, rk.DOP853_C, rk.DOP853_E5, rk.DOP853_E3, jac, clmo, ndof)[0]
            else:
                if tn in ("RK4", "RK6", "RK8"):
                    outs["rk_embedded_step_jit_kernel"] = rk.rk_embedded_step_jit_kernel(fj, t0, y, h, A, b, np.empty(0), c, False)[0]
                elif tn == "RK45":
                    r = rk.rk45_step_jit_kernel(fj, t0, y, h, rk.RK45_A, rk.RK45_B_HIGH, rk.RK45_C, rk.RK45_E)
                    outs["rk45_step_jit_kernel"] = r[0]
                    # error vector = h * K^T E with K including f(y_new)
                    K = np.vstack([kref, fpy(t0 + h, yref)])
                    eref = h * (K.T @ np.asarray(rk.RK45_E))
                    if np.max(np.abs(r[2] - eref)) > 1e-12 * (1 + np.max(np.abs(eref))) + 1e-15:
                        viol.append(violation("step/rk45/err_vec", "rk45 error vector differs from h*K^T*E (%s, h=%g)" % (name, h), r[2], eref))
                else:
                    r = rk.dop853_step_jit_kernel(fj, t0, y, h, rk.DOP853_A, rk.DOP853_B, rk.DOP853_C, rk.DOP853_E5, rk.DOP853_E3)
                    outs["dop853_step_jit_kernel"] = r[0]
            for kn, got in outs.items():
                n += 1
                d = float(np.max(np.abs(np.asarray(got) - yref)))
                if d > 1e-13 * (1 + float(np.max(np.abs(yref)))):
                    viol.append(violation("step/%s/%s" % (kn, tn), "%s with table %s: one step (problem %s, h=%g) differs from the textbook step by %.3e" % (kn, tn, name, h, d), got, yref))
    return res(evals=n, nontrivial=n, viol=viol[:6], sample={"problem": name, "kernel_steps": n})


# ------------------------------------------------------------------ 3. fixed-step ladders
FLOOR = 3e-13
BASE_N = {4: 24, 6: 6, 8: 3}


def _ladder_ok(errs, p, key, what, floor=FLOOR):
    """Order from the ladder: overall slope between the first rung and the last rung above the rounding floor
    (at least one halving) must be >= p - 0.75, and no single halving may gain less than p - 2.5."""
    idx = [i for i, e in enumerate(errs) if e > floor]
    # informative prefix: rungs 0..m all above the floor
    m = 0
    while m + 1 < len(errs) and errs[m + 1] > floor and errs[m] > floor:
        m += 1
    if m == 0 or errs[0] <= floor:
        return 0, None
    pairs = [math.log2(errs[i] / errs[i + 1]) for i in range(m)]
    tail = sorted(pairs[-3:])          # the coarsest rungs may be pre-asymptotic: judge on the finest informative halvings
    slope = tail[len(tail) // 2]
    if slope < p - 0.75:
        return m, violation(key, "%s: error ladder %s converges with exponent %.2f < declared order %d" % (
            what, ["%.2e" % e for e in errs], slope, p), errs, p)
    if m >= 3 and min(pairs[-2:]) < p - 2.5:
        return m, violation(key, "%s: error ladder %s has a halving that gains only 2^%.2f (declared order %d)" % (
            what, ["%.2e" % e for e in errs], min(pairs[-2:]), p), errs, p)
    return m, None


def _tgrid(span, nst, kind):
    """uniform grid, or a smoothly graded one (step ratio ~3 between its ends) whose refinements keep their shape, so the order is unchanged"""
    u = np.linspace(0.0, 1.0, nst + 1)
    if kind == "graded":
        u = u + 0.3 * u * (1.0 - u) * (1.0 - 2.0 * u) + 0.25 * u * (1.0 - u)
    return span * u


def k_fixed_ladder(params):
    rk = _L["rk"]
    name, order = params["problem"], params["order"]
    gkind = params.get("grid", "uniform")
    f, dim, span = PROBLEMS[name]
    sysm = _system(name)
    integ = rk.RungeKutta(order=order)
    viol = []
    useful_total = 0
    n = 0
    for y0 in _y0s(name, params["seed"]):
        y0 = np.array(y0, dtype=float)
        errs = []
        for kk in range(params["rungs"]):
            nst = BASE_N[order] * 2 ** kk
            t = _tgrid(span, nst, gkind)
            sol = integ.integrate(sysm, y0, t)
            n += 1
            ex = _exact(name, y0, span)
            errs.append(float(np.max(np.abs(sol.states[-1] - ex))))
            if kk == 0:
                # samples exactly at requested times and first sample is y0
                if not np.array_equal(sol.times, t) or not np.array_equal(sol.states[0], y0):
                    viol.append(violation("fixed/grid", "fixed RK%d does not return the requested grid / initial state" % order))
                mid = len(t) // 2
                exm = _exact(name, y0, t[mid])
                em = float(np.max(np.abs(sol.states[mid] - exm)))
                if em > 10 * max(errs[0], 1e-12):
                    viol.append(violation("fixed/interior", "RK%d interior sample error %.2e much larger than end error %.2e" % (order, em, errs[0])))
        useful, v = _ladder_ok(errs, order, "fixed_ladder/order%d/%s%s" % (order, name, "" if gkind == "uniform" else "/graded"), "RungeKutta(order=%d) on %s (%s grid), y0=%s" % (order, name, gkind, y0.tolist()))
        useful_total += useful
        if v:
            viol.append(v)
        if errs[-1] > 1e-6:
            viol.append(violation("fixed_accuracy/order%d/%s" % (order, name), "finest rung error %.2e" % errs[-1], errs))
    if useful_total == 0:
        raise RuntimeError("uninformative ladder for %s order %d: %s" % (name, order, errs))
    return res(evals=n, nontrivial=useful_total, sigs=None, viol=viol[:3], stats={"ladder_pairs_above_floor": useful_total},
               sample={"problem": name, "order": order, "last_error_ladder": errs})


def _cr3bp_ref(mu, y0, tf):
    from scipy.integrate import solve_ivp

    def f(t, s):
        x, y, z, vx, vy, vz = s
        r1 = math.sqrt((x + mu) ** 2 + y * y + z * z)
        r2 = math.sqrt((x - 1 + mu) ** 2 + y * y + z * z)
        ax = 2 * vy + x - (1 - mu) * (x + mu) / r1 ** 3 - mu * (x - 1 + mu) / r2 ** 3
        ay = -2 * vx + y - (1 - mu) * y / r1 ** 3 - mu * y / r2 ** 3
        az = -(1 - mu) * z / r1 ** 3 - mu * z / r2 ** 3
        return [vx, vy, vz, ax, ay, az]

    sol = solve_ivp(f, (0.0, tf), y0, method="DOP853", rtol=1e-13, atol=1e-14)
    return sol.y[:, -1]


def k_propagate_ladder(params):
    """System.propagate(method='fixed', order=p): self-convergence ladder + reference at the finest rung"""
    from hiten.system.base import System

    mu = params["mu"]
    order = params["order"]
    system = System.from_mu(mu)
    y0 = np.array(params["y0"], dtype=float)
    tf = params["tf"]
    sols = []
    n = 0
    for kk in range(params["rungs"]):
        steps = params["base"] * 2 ** kk + 1
        traj = system.propagate(y0, tf=tf, steps=steps, method="fixed", order=order)
        sols.append(np.asarray(traj.states[-1], dtype=float))
        n += 1
    diffs = [float(np.max(np.abs(a - b))) for a, b in zip(sols, sols[1:])]
    viol = []
    useful, v = _ladder_ok(diffs, order, "propagate_ladder/order%d" % order, "System.propagate(method='fixed', order=%d), mu=%g" % (order, mu))
    if v:
        viol.append(v)
    ref = _cr3bp_ref(mu, y0, tf)
    e = float(np.max(np.abs(sols[-1] - ref)))
    if e > 1e-8:
        viol.append(violation("propagate_accuracy/order%d" % order, "finest rung differs from the reference solution by %.2e" % e, sols[-1], ref))
    if useful == 0:
        raise RuntimeError("uninformative propagate ladder %s" % diffs)
    return res(evals=n, nontrivial=useful, viol=viol, sample={"mu": mu, "order": order, "self_convergence_ladder": diffs, "err_vs_reference": e})


def k_ham_ladder(params):
    """fixed-step orders on the Hamiltonian fast path (self-convergence + scipy reference)"""
    from engine import hamref
    from scipy.integrate import solve_ivp

    rk = _L["rk"]
    p = hamref.ham_menu()[params["ham"]]
    hs = hamref.make_hamsys(p)
    fpy = hamref.grad_py(p)
    order = params["order"]
    y0 = np.array(params["y0"], dtype=float)
    tf = params["tf"]
    integ = rk.RungeKutta(order=order)
    sols = []
    gkind = params.get("grid", "uniform")
    for kk in range(params["rungs"]):
        nst = BASE_N[order] * 2 ** kk
        sols.append(integ.integrate(hs, y0, _tgrid(tf, nst, gkind)).states[-1])
    diffs = [float(np.max(np.abs(a - b))) for a, b in zip(sols, sols[1:])]
    viol = []
    useful, v = _ladder_ok(diffs, order, "ham_ladder/order%d%s" % (order, "" if gkind == "uniform" else "/graded"), "RungeKutta(order=%d) on polynomial Hamiltonian %s (%s grid)" % (order, params["ham"], gkind))
    if v:
        viol.append(v)
    ref = solve_ivp(fpy, (0, tf), y0, method="DOP853", rtol=1e-13, atol=1e-14).y[:, -1]
    e = float(np.max(np.abs(sols[-1] - ref)))
    if e > 1e-8:
        viol.append(violation("ham_accuracy/order%d" % order, "Hamiltonian fast path differs from reference by %.2e" % e, sols[-1], ref))
    if useful == 0:
        raise RuntimeError("uninformative ham ladder %s" % diffs)
    return res(evals=len(sols), nontrivial=useful, viol=viol, sample={"ham": params["ham"], "order": order, "ladder": diffs, "err_vs_reference": e})


# ------------------------------------------------------------------ 4. adaptive
TOLS = [1e-4, 1e-6, 1e-8, 1e-10, 1e-12]
KTOL = 300.0


def _grids(span, which):
    if which == "ends":
        return np.array([0.0, span])
    if which == "seven":
        return np.concatenate(([0.0], span * np.array([0.0917, 0.2331, 0.3779, 0.5113, 0.6871, 0.8319, 0.9533]), [span]))
    return np.linspace(0.0, span, 38)


def k_adaptive(params):
    rk = _L["rk"]
    name, order, grid = params["problem"], params["order"], params["grid"]
    viol = []
    n = 0
    useful = 0
    if name.startswith("ham:"):
        from engine import hamref
        from scipy.integrate import solve_ivp

        p = hamref.ham_menu()[name[4:]]
        sysm = hamref.make_hamsys(p)
        fpy = hamref.grad_py(p)
        span = 2.0
        y0s = [np.array([0.2, -0.3, 0.25, 0.1, 0.3, -0.2])]
        t = _grids(span, grid)
        refs = [solve_ivp(fpy, (0, span), y0s[0], method="DOP853", rtol=1e-13, atol=1e-14, t_eval=t).y.T]
        floor = 2e-11
    else:
        f, dim, span = PROBLEMS[name]
        sysm = _system(name)
        y0s = [np.array(v, dtype=float) for v in _y0s(name, params["seed"])]
        t = _grids(span, grid)
        refs = [np.array([_exact(name, y0, tt) for tt in t]) for y0 in y0s]
        floor = 2e-12
    for y0, ref in zip(y0s, refs):
        errs = []
        for tol in TOLS:
            integ = rk.AdaptiveRK(order=order, rtol=tol, atol=tol)
            sol = integ.integrate(sysm, y0, t)
            n += 1
            if sol.states.shape != ref.shape or not np.array_equal(sol.times, t):
                viol.append(violation("adaptive/grid/order%d" % order, "adaptive order %d does not return samples exactly at the requested times" % order))
                break
            if not np.array_equal(sol.states[0], y0):
                viol.append(violation("adaptive/first_sample/order%d" % order, "first sample is not the initial state"))
            sc = 1.0 + float(np.max(np.abs(ref)))
            e = float(np.max(np.abs(sol.states - ref)))
            errs.append(e)
            if e > KTOL * tol * sc + floor:
                viol.append(violation("adaptive/tolerance/order%d/%s" % (order, grid), "AdaptiveRK(order=%d, rtol=atol=%g) on %s, grid=%s: max error over output times %.3e > %g*tol*(1+|y|)" % (
                    order, tol, name, grid, e, KTOL), e, KTOL * tol * sc))
                break
        else:
            # "shrinks with them": roughly monotone, and a large overall reduction across the 8 decades of tolerance
            for ea, eb in zip(errs, errs[1:]):
                if ea > 50 * floor:
                    useful += 1
                if eb > 3.0 * ea + 50 * floor:
                    viol.append(violation("adaptive/shrink/order%d/%s" % (order, grid), "error grows when the tolerance is tightened: %s on %s" % (["%.2e" % x for x in errs], name), errs))
                    break
            if errs[-1] > max(50 * floor, 1e-3 * errs[0]):
                viol.append(violation("adaptive/shrink/order%d/%s" % (order, grid), "error does not shrink with the tolerance: %s on %s" % (["%.2e" % x for x in errs], name), errs))
    return res(evals=n, nontrivial=max(useful, 0), viol=viol[:3], stats={"tolerance_pairs_above_floor": useful},
               sample={"problem": name, "order": order, "grid": grid, "error_ladder": errs})


def k_dense_order(params):
    """dense-output order: huge tolerance so that every step has length max_step=h; error at interior output times ~ h^q"""
    rk = _L["rk"]
    name, order = params["problem"], params["order"]
    f, dim, span = PROBLEMS[name]
    sysm = _system(name)
    y0 = np.array(_y0s(name, params["seed"])[0], dtype=float)
    q = 4 if order == 5 else 7
    base = 8 if order == 5 else 3
    errs = []
    for kk in range(4):
        nst = base * 2 ** kk
        h = span / nst
        # output points at 0.37 and 0.71 of every step -> pure dense-output values
        tt = np.sort(np.concatenate(([0.0, span], [(i + 0.37) * h for i in range(nst)], [(i + 0.71) * h for i in range(nst)])))
        integ = rk.AdaptiveRK(order=order, rtol=1e3, atol=1e3, max_step=h)
        sol = integ.integrate(sysm, y0, tt)
        ref = np.array([_exact(name, y0, x) for x in tt])
        errs.append(float(np.max(np.abs(sol.states - ref))))
    useful, v = _ladder_ok(errs, q, "dense_order/order%d/%s" % (order, name), "dense output of adaptive order %d on %s with forced step max_step=h" % (order, name))
    if useful == 0:
        raise RuntimeError("uninformative dense ladder %s" % errs)
    return res(evals=4, nontrivial=useful, viol=[v] if v else [], sample={"problem": name, "order": order, "dense_error_ladder": errs})


def k_adaptive_mixed(params):
    """rtol != atol and solution magnitudes far from 1: the error must follow atol + rtol*|y| (and not the swapped combination)"""
    rk = _L["rk"]
    order = params["order"]
    sysm = _system("rot")
    viol = []
    n = 0
    useful = 0
    span = 2.0
    t = _grids(span, "seven")
    rows = []
    for mag in (1e-5, 1.0, 1e4):
        for rtol, atol in ((1e-6, 1e-14), (1e-10, 1e-3), (1e-9, 1e-9)):
            y0 = np.array([0.8, -0.3]) * mag
            ref = np.array([_exact("rot", y0, tt) for tt in t])
            sol = rk.AdaptiveRK(order=order, rtol=rtol, atol=atol).integrate(sysm, y0, t)
            n += 1
            e = float(np.max(np.abs(sol.states - ref)))
            scale = atol + rtol * float(np.max(np.abs(ref)))
            rows.append([mag, rtol, atol, e, scale])
            if e > 10 * scale:
                useful += 1
            if e > 20.0 * scale + 1e-13 * mag:   # observed <= 0.8*scale on a short span of a linear rotation
                viol.append(violation("adaptive/mixed_tolerances/order%d" % order, "AdaptiveRK(order=%d, rtol=%g, atol=%g) on a solution of magnitude %g: max error %.3e > 20*(atol + rtol*|y|) = %.3e" % (
                    order, rtol, atol, mag, e, 20.0 * scale), e, 20.0 * scale))
    return res(evals=n, nontrivial=n, viol=viol[:3], sample={"order": order, "rows(mag,rtol,atol,err,scale)": rows[:4]})


def k_reuse(params):
    """one integrator instance used for problem A, then problem B (other dimension / other kind of system), then A again, for every ordered
    pair (A, B): each result must be the exact solution within the bound of that problem and bit-identical to what a newly made instance returns"""
    rk = _L["rk"]
    from engine import hamref
    from scipy.integrate import solve_ivp

    kind, order = params["integrator"], params["order"]
    make = (lambda: rk.RungeKutta(order=order)) if kind == "fixed" else (lambda: rk.AdaptiveRK(order=order, rtol=params["tol"], atol=params["tol"]))
    probs = {}
    for name in ("rot", "euler", "riccati"):
        f, dim, span = PROBLEMS[name]
        y0 = np.array(_y0s(name, params["seed"])[0], dtype=float)
        t = _tgrid(span, 160, "uniform")
        probs[name] = (_system(name), y0, t, np.array([_exact(name, y0, tt) for tt in t]))
    ph = hamref.ham_menu()["cubic_mixed"]
    y0h = np.array([0.2, -0.3, 0.25, 0.1, 0.3, -0.2])
    th = _tgrid(2.0, 160, "uniform")
    probs["ham"] = (hamref.make_hamsys(ph), y0h, th, solve_ivp(hamref.grad_py(ph), (0, 2.0), y0h, method="DOP853", rtol=1e-13, atol=1e-14, t_eval=th).y.T)
    bound = {("fixed", 4): 2e-6, ("fixed", 6): 1e-8, ("fixed", 8): 1e-9}.get((kind, order), KTOL * params.get("tol", 0.0) * 3.0 + 1e-10)
    viol = {}
    n = nt = 0
    fresh = {nm: np.array(make().integrate(sy, y0, t).states) for nm, (sy, y0, t, ex) in probs.items()}
    for a in probs:
        for b in probs:
            if a == b:
                continue
            inst = make()
            seq = [a, b, a]
            for k, nm in enumerate(seq):
                sy, y0, t, ex = probs[nm]
                st = np.array(inst.integrate(sy, y0, t).states)
                n += 1
                nt += 1 if k else 0
                tag = "%s(order=%d) instance used for %s, call %d" % ("RungeKutta" if kind == "fixed" else "AdaptiveRK", order, seq, k + 1)
                e = float(np.max(np.abs(st - ex)))
                if st.shape != ex.shape or e > bound * (1.0 + float(np.max(np.abs(ex)))):
                    key = "reuse/accuracy/%s%d" % (kind, order)
                    viol.setdefault(key, violation(key, "error %.3e against the exact solution of %s exceeds %.1e [%s]" % (e, nm, bound, tag), e, bound))
                if st.shape != fresh[nm].shape or not np.array_equal(st, fresh[nm]):
                    key = "reuse/differs_from_new_instance/%s%d" % (kind, order)
                    d = float(np.max(np.abs(st - fresh[nm]))) if st.shape == fresh[nm].shape else float("inf")
                    viol.setdefault(key, violation(key, "result for %s differs by %.3e from the result of a newly made instance [%s]" % (nm, d, tag), d, 0.0))
    return res(evals=n, nontrivial=nt, viol=list(viol.values()), sample={"integrator": kind, "order": order, "calls": n})


KINDS = {"reuse": k_reuse, "adaptive_mixed": k_adaptive_mixed, "trees": k_trees, "trees_embedded": k_trees_embedded, "step": k_step, "fixed_ladder": k_fixed_ladder, "propagate_ladder": k_propagate_ladder,
         "ham_ladder": k_ham_ladder, "adaptive": k_adaptive, "dense_order": k_dense_order}


def cases(tier, seed):
    out = []
    for tn in ("RK4", "RK6", "RK8", "RK45", "DOP853"):
        out.append(("trees", {"tableau": tn}))
    out.append(("trees_embedded", {}))
    o = seed_offsets(seed, 6, 0.05)
    for name in PROBLEMS:
        for y0 in _y0s(name, seed)[:2]:
            out.append(("step", {"problem": name, "y0": y0, "t0": 0.3 + o[0], "hs": [0.1, -0.05, 0.4]}))
    out.append(("step", {"problem": "ham", "y0": [0.2, -0.3, 0.25, 0.1, 0.3, -0.2], "t0": 0.0, "hs": [0.1, -0.05, 0.4]}))
    out.append(("step", {"problem": "ham", "y0": [-0.4 + o[1], 0.1, 0.0, 0.3, -0.2, 0.5], "t0": 1.0, "hs": [0.2]}))
    rungs = 4 if tier == "quick" else 5
    for name in PROBLEMS:
        for order in (4, 6, 8):
            out.append(("fixed_ladder", {"problem": name, "order": order, "rungs": rungs, "seed": seed}))
    for order in (4, 6, 8):
        out.append(("fixed_ladder", {"problem": "nonauto", "order": order, "rungs": rungs, "seed": seed, "grid": "graded"}))
        out.append(("ham_ladder", {"ham": "cubic_mixed", "order": order, "y0": [0.2, -0.3, 0.25 + o[3], 0.1, 0.3, -0.2], "tf": 2.0, "rungs": rungs + 1, "grid": "graded"}))
    for order in (5, 8):
        out.append(("adaptive_mixed", {"order": order}))
    for order in (4, 6, 8):
        out.append(("propagate_ladder", {"mu": 0.01215, "order": order, "y0": [0.82 + 0.01 * o[2], 0.02, 0.05, 0.03, 0.15, -0.02], "tf": 1.5,
                                         "base": {4: 48, 6: 12, 8: 4}[order], "rungs": rungs + 1}))
        for ham in (("cubic_mixed", "q2p2") if tier == "quick" else ("cubic_mixed", "q2p2", "saddle_center", "deg6")):
            out.append(("ham_ladder", {"ham": ham, "order": order, "y0": [0.2, -0.3, 0.25 + o[3], 0.1, 0.3, -0.2], "tf": 2.0, "rungs": rungs + 1}))
    for order in (5, 8):
        for grid in ("ends", "seven", "dense37"):
            for name in list(PROBLEMS) + ["ham:cubic_mixed"] + ([] if tier == "quick" else ["ham:q2p2", "ham:deg6"]):
                out.append(("adaptive", {"problem": name, "order": order, "grid": grid, "seed": seed}))
        for name in ("rot", "euler", "nonauto"):
            out.append(("dense_order", {"problem": name, "order": order, "seed": seed}))
    for order in (4, 6, 8):
        out.append(("reuse", {"integrator": "fixed", "order": order, "seed": seed}))
    for order in (5, 8):
        out.append(("reuse", {"integrator": "adaptive", "order": order, "tol": 1e-9, "seed": seed}))
    return out
