"""C10 - backward propagation and time grids mean what they say.

Alphabet: systems {user rhs with exact flow, CR3BP, 42-D variational, polynomial Hamiltonian} x
entry points {_propagate_dynsys, System.propagate, raw Integrator.integrate} x method/order x
forward{+1,-1} x flip{None, block} x spans{0, 1e-9, 0.5, 2.0} (also t0 != 0) x steps{2,3,11,101};
raw grids: ascending, strictly descending, zero-span, non-monotone.
"""
import math

import numpy as np

from engine.core import res, violation, seed_offsets

ID = "C10"
LEVEL = "exploration"
WORKERS = {"quick": 10, "thorough": 14}
RULE = ("complete product of the stated alphabet per system; oracle = exact flow (linear systems), reference flow (scipy DOP853 1e-13 on harness fields) and forward-then-backward "
        "round trips; non-trivial = backward or descending-grid case with non-zero span; distinct = (system, entry point, method, order, direction, flip, span, steps)")
ASSUMPTIONS = [
    "direction -1 through the propagation layer returns times = -(elapsed grid): non-positive, strictly decreasing for non-zero spans, first entry -t0",
    "raw integrators on a strictly decreasing grid may either integrate it (result compared with the reference flow at those times) or raise; non-monotone grids must raise",
    "selective sign flipping is checked on a system with decoupled blocks (flipped block runs backward, the other forward)",
]

_L = {}


def worker_init():
    if _L:
        return
    from hiten.algorithms.dynamics.base import _propagate_dynsys, _DirectedSystem
    from hiten.algorithms.dynamics.rhs import create_rhs_system
    from hiten.algorithms.integrators import rk
    from hiten.algorithms.integrators.symplectic import ExtendedSymplectic

    _L.update(prop=_propagate_dynsys, Directed=_DirectedSystem, create=create_rhs_system, rk=rk, Sym=ExtendedSymplectic)


# user system: two decoupled blocks with exact flow: rotation (w=1.3) and saddle (lambda=0.7)
def f_user(t, y):
    out = np.empty(4)
    out[0] = 1.3 * y[1]
    out[1] = -1.3 * y[0]
    out[2] = 0.7 * y[3]
    out[3] = 0.7 * y[2]
    return out


def user_flow(y0, t, tb=None):
    """flow for time t on block a (rotation) and time tb on block b (saddle)"""
    tb = t if tb is None else tb
    c, s = math.cos(1.3 * t), math.sin(1.3 * t)
    ch, sh = math.cosh(0.7 * tb), math.sinh(0.7 * tb)
    return np.array([c * y0[0] + s * y0[1], -s * y0[0] + c * y0[1], ch * y0[2] + sh * y0[3], sh * y0[2] + ch * y0[3]])


def _user():
    if "user" not in _L:
        _L["user"] = _L["create"](f_user, 4, name="verif-user")
    return _L["user"]


METHODS = [("fixed", 4), ("fixed", 6), ("fixed", 8), ("adaptive", 5), ("adaptive", 8)]


def _tol(method, order, steps, span):
    if method == "adaptive":
        return 1e-8
    h = span / max(steps - 1, 1)
    return 10.0 * (1.5 * h) ** order + 1e-10


def _check_times(times, t0, tf, steps, forward, V, tag):
    exp = forward * np.linspace(t0, tf, steps)
    if len(times) != steps or np.max(np.abs(np.asarray(times) - exp)) > 1e-14 * (1 + abs(tf)):
        V("times", "returned times %s ... %s are not forward*linspace(t0,tf,steps) = %s ... %s [%s]" % (np.asarray(times)[:2].tolist(), np.asarray(times)[-1:].tolist(), exp[:2].tolist(), exp[-1:].tolist(), tag), np.asarray(times)[:3], exp[:3])
        return False
    if forward == -1 and tf > t0:
        if np.any(np.asarray(times) > 0) or np.any(np.diff(times) >= 0):
            V("times_sign", "times for direction -1 are not non-positive and strictly decreasing [%s]" % tag, np.asarray(times)[:3])
            return False
    return True


def k_user(params):
    prop = _L["prop"]
    sysm = _user()
    viol = {}
    n = 0
    nontriv = 0
    y0 = np.array(params["y0"], dtype=float)

    def V(key, what, obs=None, exp=None):
        viol.setdefault("user/" + key, violation("user/" + key, what, obs, exp))

    for method, order in METHODS:
        for forward in (1, -1):
            for flip in (None, "block_b"):
                for (t0, tf) in ((0.0, 0.0), (0.0, 1e-9), (0.0, 0.5), (0.0, 2.0), (0.25, 1.0)):
                    for steps in (2, 3, 11, 101):
                        n += 1
                        tag = "method=%s order=%d forward=%d flip=%s t0=%g tf=%g steps=%d" % (method, order, forward, flip, t0, tf, steps)
                        fi = slice(2, 4) if flip else None
                        try:
                            sol = prop(sysm, y0, t0, tf, forward=forward, steps=steps, method=method, order=order, flip_indices=fi)
                        except Exception as exc:
                            V("raised/%s" % method, "_propagate_dynsys raised %s: %s [%s]" % (type(exc).__name__, str(exc)[:120], tag))
                            continue
                        if not _check_times(sol.times, t0, tf, steps, forward, V, tag):
                            continue
                        if not np.array_equal(sol.states[0], y0):
                            V("first_sample", "first sample is not the initial state [%s]" % tag, sol.states[0], y0)
                        span = tf - t0
                        if span > 0 and forward == -1:
                            nontriv += 1
                        # exact flow: elapsed e = |time| - t0 ; direction -1 reverses all components (flip None) or only block b
                        tol = _tol(method, order, steps, max(span, 1e-9)) * 30
                        for k in range(len(sol.times)):
                            e = abs(sol.times[k]) - t0
                            if forward == 1:
                                ref = user_flow(y0, e)
                            elif flip is None:
                                ref = user_flow(y0, -e)
                            else:
                                ref = user_flow(y0, e, -e)
                            err = float(np.max(np.abs(sol.states[k] - ref)))
                            if err > tol * (1 + float(np.max(np.abs(ref)))):
                                V("flow/%s%d/fwd%d/flip%s" % (method, order, forward, "B" if flip else "N"), "state at returned time %.6g differs from the exact flow by %.3e [%s]" % (sol.times[k], err, tag), sol.states[k], ref)
                                break
                        # round trip
                        if span > 0 and flip is None and forward == 1:
                            back = prop(sysm, sol.states[-1], 0.0, span, forward=-1, steps=steps, method=method, order=order)
                            err = float(np.max(np.abs(back.states[-1] - y0)))
                            if err > 2 * tol * (1 + float(np.max(np.abs(y0)))):
                                V("roundtrip/%s%d" % (method, order), "forward then backward propagation of equal length misses the start by %.3e [%s]" % (err, tag), back.states[-1], y0)
    return res(evals=n, nontrivial=nontriv, viol=list(viol.values()), sample={"system": "user", "y0": y0.tolist(), "propagations": n})


def _grids(kind, n, span):
    if kind == "ascending":
        return np.linspace(0.0, span, n)
    if kind == "descending":
        return np.linspace(0.0, -span, n)
    if kind == "descending_from_t0":
        return np.linspace(0.7, 0.7 - span, n)
    if kind == "zero_span":
        return np.full(n, 0.3)
    if kind == "non_monotone":
        t = np.linspace(0.0, span, n)
        if n >= 3:
            t[1], t[2] = t[2], t[1]
        else:
            t = np.array([0.0, span, 0.5 * span])
        return t
    raise KeyError(kind)


def k_raw(params):
    """raw Integrator.integrate on ascending / descending / zero-span / non-monotone grids"""
    rk = _L["rk"]
    viol = {}
    n = 0
    nontriv = 0
    which = params["system"]
    if which == "user":
        sysm = _user()
        y0 = np.array(params["y0"], dtype=float)
        flow = lambda t: user_flow(y0, t)
        integ = {"fixed4": lambda: rk.RungeKutta(order=4), "fixed6": lambda: rk.RungeKutta(order=6), "fixed8": lambda: rk.RungeKutta(order=8),
                 "rk45": lambda: rk.AdaptiveRK(order=5, rtol=1e-10, atol=1e-12), "dop853": lambda: rk.AdaptiveRK(order=8, rtol=1e-10, atol=1e-12)}
    else:
        from engine import hamref
        from scipy.integrate import solve_ivp

        p = hamref.ham_menu()["cubic_mixed"]
        sysm = hamref.make_hamsys(p)
        fpy = hamref.grad_py(p)
        y0 = np.array(params["y0"], dtype=float)

        def flow(t):
            if t == 0:
                return y0.copy()
            return solve_ivp(fpy, (0.0, t), y0, method="DOP853", rtol=1e-13, atol=1e-14).y[:, -1]
        integ = {"fixed4": lambda: rk.RungeKutta(order=4), "fixed8": lambda: rk.RungeKutta(order=8),
                 "rk45": lambda: rk.AdaptiveRK(order=5, rtol=1e-10, atol=1e-12), "dop853": lambda: rk.AdaptiveRK(order=8, rtol=1e-10, atol=1e-12),
                 "symplectic4": lambda: _L["Sym"](order=4), "symplectic2": lambda: _L["Sym"](order=2)}
    outcomes = {}
    for iname, mk in integ.items():
        for kind in ("ascending", "descending", "descending_from_t0", "zero_span", "non_monotone"):
            for npts in (2, 3, 11, 101):
                for span in (0.5, 2.0):
                    if kind == "zero_span" and span != 0.5:
                        continue
                    t = _grids(kind, npts, span)
                    n += 1
                    tag = "system=%s integrator=%s grid=%s n=%d span=%g" % (which, iname, kind, npts, span)
                    try:
                        sol = mk().integrate(sysm, y0, t)
                    except Exception as exc:
                        outcomes[(iname, kind, "raised")] = outcomes.get((iname, kind, "raised"), 0) + 1
                        if kind == "ascending":   # a zero-span grid may be rejected (rk45 divides by the span); an ascending one may not
                            viol.setdefault("raw/raised/%s/%s" % (iname, kind), violation("raw/raised/%s/%s" % (iname, kind), "integrate raised %s: %s on a valid grid [%s]" % (type(exc).__name__, str(exc)[:100], tag)))
                        continue
                    outcomes[(iname, kind, "returned")] = outcomes.get((iname, kind, "returned"), 0) + 1
                    if kind == "non_monotone":
                        viol.setdefault("raw/non_monotone_accepted/%s" % iname, violation("raw/non_monotone_accepted/%s" % iname, "non-monotone time grid was accepted [%s]" % tag, t[:4]))
                        continue
                    if kind.startswith("descending"):
                        nontriv += 1
                    if sol.states.shape[0] != len(t) or not np.array_equal(np.asarray(sol.times), t):
                        viol.setdefault("raw/times/%s/%s" % (iname, kind), violation("raw/times/%s/%s" % (iname, kind), "samples are not returned exactly at the requested times [%s]" % tag, np.asarray(sol.times)[:3], t[:3]))
                        continue
                    if not np.array_equal(sol.states[0], y0):
                        viol.setdefault("raw/first_sample/%s" % iname, violation("raw/first_sample/%s" % iname, "first sample is not the initial state [%s]" % tag))
                    # compare with the reference flow at the elapsed (signed) times
                    if iname.startswith("symplectic"):
                        tol = 5e-2 if iname == "symplectic2" else 5e-3   # low effective order (see C16); only gross errors such as a constant trajectory
                        if npts < 101:
                            continue
                    elif iname.startswith("fixed"):
                        h = span / (npts - 1)
                        tol = 20.0 * (1.5 * h) ** int(iname[5:]) + 1e-9
                    else:
                        tol = 1e-7
                    for k in (len(t) // 2, len(t) - 1):
                        ref = flow(float(t[k] - t[0]))
                        err = float(np.max(np.abs(sol.states[k] - ref))) / (1 + float(np.max(np.abs(ref))))
                        if err > tol:
                            key = "raw/silently_wrong/%s/%s" % (iname, kind)
                            viol.setdefault(key, violation(key, "integrate returned a trajectory that is not the flow: state at t=%.4g differs from the reference by %.3e (constant trajectory: %s) [%s]" % (
                                t[k], err, bool(np.max(np.abs(sol.states[k] - y0)) == 0), tag), sol.states[k], ref))
                            break
    oc = {"%s/%s/%s" % k: v for k, v in outcomes.items()}
    return res(evals=n, nontrivial=nontriv, viol=list(viol.values()), sample={"system": which, "integrations": n, "outcomes": oc})


def _cr3bp_ref(mu, y0, t):
    from scipy.integrate import solve_ivp

    def f(tt, s):
        x, y, z, vx, vy, vz = s
        r1 = math.sqrt((x + mu) ** 2 + y * y + z * z)
        r2 = math.sqrt((x - 1 + mu) ** 2 + y * y + z * z)
        return [vx, vy, vz, 2 * vy + x - (1 - mu) * (x + mu) / r1 ** 3 - mu * (x - 1 + mu) / r2 ** 3,
                -2 * vx + y - (1 - mu) * y / r1 ** 3 - mu * y / r2 ** 3, -(1 - mu) * z / r1 ** 3 - mu * z / r2 ** 3]
    if t == 0:
        return np.array(y0, dtype=float)
    return solve_ivp(f, (0.0, t), y0, method="DOP853", rtol=1e-13, atol=1e-14).y[:, -1]


def k_system(params):
    """System.propagate and _propagate_dynsys on CR3BP / variational / Hamiltonian systems"""
    from hiten.system.base import System

    prop = _L["prop"]
    mu = params["mu"]
    system = System.from_mu(mu)
    y0 = np.array(params["y0"], dtype=float)
    viol = {}
    n = 0
    nontriv = 0

    def V(key, what, obs=None, exp=None):
        viol.setdefault("system/" + key, violation("system/" + key, what, obs, exp))

    for method, order in METHODS:
        for tf in (0.0, 0.5, 2.0):
            for steps in ((3, 101) if method == "fixed" else (2, 11)):
                # System.propagate, both directions
                trajs = {}
                for forward in (1, -1):
                    n += 1
                    tag = "System.propagate method=%s order=%d tf=%g steps=%d forward=%d" % (method, order, tf, steps, forward)
                    try:
                        tr = system.propagate(y0, tf=tf, steps=steps, method=method, order=order, forward=forward)
                    except Exception as exc:
                        if tf != 0.0:   # a zero span may be rejected (Trajectory needs strictly monotone times); anything else may not
                            V("raised/%s" % method, "System.propagate raised %s: %s [%s]" % (type(exc).__name__, str(exc)[:120], tag))
                        continue
                    times, states = np.asarray(tr.times), np.asarray(tr.states)
                    if not _check_times(times, 0.0, tf, steps, forward, V, tag):
                        continue
                    if not np.array_equal(states[0], y0):
                        V("first_sample", "first sample is not the initial state [%s]" % tag)
                    if tf > 0 and forward == -1:
                        nontriv += 1
                    trajs[forward] = states
                    if tf > 0 and (method == "adaptive" or steps == 101):
                        ref = _cr3bp_ref(mu, y0, forward * tf)
                        tol = 1e-7 if method == "adaptive" else 10 * (1.5 * tf / (steps - 1)) ** order * 50 + 1e-8
                        err = float(np.max(np.abs(states[-1] - ref)))
                        if err > tol:
                            V("flow/%s%d/fwd%d" % (method, order, forward), "final state differs from the reference flow at t=%g by %.3e [%s]" % (forward * tf, err, tag), states[-1], ref)
                # round trip through the raw propagation layer
                if tf > 0 and 1 in trajs and (method == "adaptive" or steps == 101):
                    n += 1
                    back = prop(system.dynsys, trajs[1][-1], 0.0, tf, forward=-1, steps=steps, method=method, order=order)
                    err = float(np.max(np.abs(back.states[-1] - y0)))
                    tol = 1e-7 if method == "adaptive" else 1e-6
                    if err > tol:
                        V("roundtrip/%s%d" % (method, order), "forward then backward of equal length misses the start by %.3e (method=%s order=%d tf=%g steps=%d)" % (err, method, order, tf, steps), back.states[-1], y0)
    # 42-D variational system, direction -1 without selective flipping: the whole 42-vector must retrace
    var = system.var_dynsys
    Y0 = np.concatenate((np.eye(6).ravel(), y0))
    for method, order in (("adaptive", 8), ("fixed", 8)):
        n += 1
        fw = prop(var, Y0, 0.0, 1.0, forward=1, steps=201, method=method, order=order)
        bk = prop(var, fw.states[-1], 0.0, 1.0, forward=-1, steps=201, method=method, order=order)
        err = float(np.max(np.abs(bk.states[-1] - Y0)))
        nontriv += 1
        if err > 1e-6:
            V("variational_roundtrip/%s" % method, "42-D variational system: forward then backward misses the start by %.3e" % err)
        if np.any(bk.times > 0) or bk.times[0] != 0:
            V("variational_times", "42-D variational system: backward times not non-positive")
    return res(evals=n, nontrivial=nontriv, viol=list(viol.values()), sample={"mu": mu, "propagations": n})


def k_ham(params):
    """polynomial Hamiltonian system through _propagate_dynsys: fixed / adaptive / symplectic, both directions"""
    from engine import hamref
    from scipy.integrate import solve_ivp

    prop = _L["prop"]
    p = hamref.ham_menu()[params["ham"]]
    hs = hamref.make_hamsys(p)
    fpy = hamref.grad_py(p)
    y0 = np.array(params["y0"], dtype=float)
    viol = {}
    n = 0
    nontriv = 0

    def V(key, what, obs=None, exp=None):
        viol.setdefault("ham/" + key, violation("ham/" + key, what, obs, exp))

    for method, order in (("fixed", 4), ("fixed", 8), ("adaptive", 5), ("adaptive", 8), ("symplectic", 2), ("symplectic", 4), ("symplectic", 6)):
        for tf in (0.0, 0.5, 2.0):
            for steps in (3, 201):
                for forward in (1, -1):
                    n += 1
                    tag = "H=%s method=%s order=%d tf=%g steps=%d forward=%d" % (params["ham"], method, order, tf, steps, forward)
                    try:
                        sol = prop(hs, y0, 0.0, tf, forward=forward, steps=steps, method=method, order=order)
                    except Exception as exc:
                        V("raised/%s" % method, "_propagate_dynsys raised %s: %s [%s]" % (type(exc).__name__, str(exc)[:160], tag))
                        continue
                    if not _check_times(sol.times, 0.0, tf, steps, forward, V, tag):
                        continue
                    if not np.array_equal(sol.states[0], y0):
                        V("first_sample", "first sample is not the initial state [%s]" % tag)
                    if tf > 0 and forward == -1:
                        nontriv += 1
                    if tf > 0 and steps == 201:
                        ref = solve_ivp(fpy, (0.0, forward * tf), y0, method="DOP853", rtol=1e-13, atol=1e-14).y[:, -1]
                        err = float(np.max(np.abs(sol.states[-1] - ref)))
                        tol = {"fixed": 1e-6, "adaptive": 1e-7, "symplectic": 2e-3}[method]
                        if err > tol:
                            V("flow/%s%d/fwd%d" % (method, order, forward), "final state differs from the reference flow at t=%g by %.3e [%s]" % (forward * tf, err, tag), sol.states[-1], ref)
    return res(evals=n, nontrivial=nontriv, viol=list(viol.values()), sample={"ham": params["ham"], "propagations": n})


def k_raw_directed(params):
    """raw Integrator.integrate on a direction-reversed system wrapper (_DirectedSystem(sys, -1)) over uniform and strongly non-uniform ascending grids:
    every returned sample (not only the last) must be the flow at minus the elapsed time"""
    rk = _L["rk"]
    Directed = _L["Directed"]
    viol = {}
    n = 0
    nontriv = 0
    which = params["system"]
    y0 = np.array(params["y0"], dtype=float)
    if which == "user":
        base = _user()
        flow = lambda t: user_flow(y0, t)
        integ = {"fixed4": lambda: rk.RungeKutta(order=4), "fixed8": lambda: rk.RungeKutta(order=8),
                 "rk45": lambda: rk.AdaptiveRK(order=5, rtol=1e-10, atol=1e-12), "dop853": lambda: rk.AdaptiveRK(order=8, rtol=1e-10, atol=1e-12)}
    else:
        from engine import hamref
        from scipy.integrate import solve_ivp

        p = hamref.ham_menu()["cubic_mixed"]
        base = hamref.make_hamsys(p)
        fpy = hamref.grad_py(p)

        def flow(t):
            if t == 0:
                return y0.copy()
            return solve_ivp(fpy, (0.0, t), y0, method="DOP853", rtol=1e-13, atol=1e-14).y[:, -1]
        integ = {"fixed4": lambda: rk.RungeKutta(order=4), "fixed8": lambda: rk.RungeKutta(order=8), "dop853": lambda: rk.AdaptiveRK(order=8, rtol=1e-10, atol=1e-12),
                 "symplectic4": lambda: _L["Sym"](order=4), "symplectic6": lambda: _L["Sym"](order=6)}
    for fwd in (1, -1):
        dsys = Directed(base, fwd)
        for iname, mk in integ.items():
            for gkind in ("uniform", "quadratic", "jagged"):
                N = 161
                u = np.linspace(0.0, 1.0, N)
                if gkind == "quadratic":
                    u = u ** 2
                elif gkind == "jagged":
                    mult = np.array([1.0, 3.0, 0.5, 2.0, 0.7])
                    d = np.array([mult[i % 5] for i in range(N - 1)])
                    u = np.concatenate(([0.0], np.cumsum(d))) / float(np.sum(d))
                t = 1.5 * u
                n += 1
                tag = "system=%s direction=%d integrator=%s grid=%s" % (which, fwd, iname, gkind)
                try:
                    sol = mk().integrate(dsys, y0, t)
                except Exception as exc:
                    viol.setdefault("raw_directed/raised/%s" % iname, violation("raw_directed/raised/%s" % iname, "integrate raised %s: %s [%s]" % (type(exc).__name__, str(exc)[:120], tag)))
                    continue
                if fwd == -1:
                    nontriv += 1
                if sol.states.shape[0] != len(t):
                    viol.setdefault("raw_directed/shape/%s" % iname, violation("raw_directed/shape/%s" % iname, "wrong number of samples [%s]" % tag))
                    continue
                tol = 3e-3 if iname.startswith("symplectic") else (2e-5 if iname == "fixed4" else 1e-7)
                for k in (N // 5, N // 2, (4 * N) // 5, N - 1):
                    ref = flow(fwd * float(t[k]))
                    err = float(np.max(np.abs(sol.states[k] - ref))) / (1 + float(np.max(np.abs(ref))))
                    if err > tol:
                        key = "raw_directed/interior_sample/%s/%s" % (iname, gkind)
                        viol.setdefault(key, violation(key, "sample %d (elapsed %.4f) of the %s-directed system differs from the flow at t=%.4f by %.3e [%s]" % (k, t[k], "backward" if fwd == -1 else "forward", fwd * t[k], err, tag), sol.states[k], ref))
                        break
    return res(evals=n, nontrivial=nontriv, viol=list(viol.values()), sample={"system": which, "integrations": n})


KINDS = {"user": k_user, "raw": k_raw, "system": k_system, "ham": k_ham, "raw_directed": k_raw_directed}


def cases(tier, seed):
    o = seed_offsets(seed, 3, 0.1)
    out = []
    for y0 in ([1.0 + o[0], 0.2, 0.3, -0.1], [-0.4, 0.8 + o[1], -0.2, 0.5]):
        out.append(("user", {"y0": y0}))
    out.append(("raw", {"system": "user", "y0": [1.0 + o[0], 0.2, 0.3, -0.1]}))
    out.append(("raw", {"system": "ham", "y0": [0.2, -0.3, 0.25 + 0.1 * o[2], 0.1, 0.3, -0.2]}))
    out.append(("raw_directed", {"system": "user", "y0": [1.0 + o[0], 0.2, 0.3, -0.1]}))
    out.append(("raw_directed", {"system": "ham", "y0": [0.2, -0.3, 0.25 + 0.1 * o[2], 0.1, 0.3, -0.2]}))
    for mu in ((0.01215,) if tier == "quick" else (0.01215, 3.0e-6, 0.3)):
        out.append(("system", {"mu": mu, "y0": [0.82 + 0.01 * o[0], 0.02, 0.05, 0.03, 0.15, -0.02]}))
    for ham in (("cubic_mixed",) if tier == "quick" else ("cubic_mixed", "q2p2", "saddle_center")):
        out.append(("ham", {"ham": ham, "y0": [0.2, -0.3, 0.25 + 0.1 * o[2], 0.1, 0.3, -0.2]}))
    return out
