"""C15 - synodic section detection finds every crossing once, on the plane, in order.

(i)  exhaustive sign/magnitude patterns g in ATOMS^N embedded as sampled trajectories with a
     strictly monotone projection coordinate, x direction x interpolation x segment_refine x
     uniform/non-uniform grids x axis-aligned/oblique normal: reference detector written from
     the statement.
(ii) analytic first-harmonic curves with closed-form crossings: sampling ladder n,2n,4n,
     error exponent >= 2 (linear) / >= 3 (cubic), exact hit count.
(iii) batch interface run(): arrays are the concatenation of the per-trajectory hits.
"""
import itertools
import math

import numpy as np

from engine.core import res, violation, seed_offsets

ID = "C15"
LEVEL = "exploration"
WORKERS = {"quick": 12, "thorough": 16}
RULE = ("complete product ATOMS^N (atoms -2,-1,-5e-13,0,+5e-13,1,2; N=5 quick / 5-atom N=6,7 and 7-atom N=6 thorough) x direction{None,+1,-1} x "
        "interp{linear,cubic} x segment_refine{0,1,2} x grid{uniform,non-uniform} x normal{axis,oblique}; plus analytic curves x "
        "normals x offsets x directions x interp x refine on a 3-rung sampling ladder; non-trivial = pattern has at least one strict "
        "sign change or on-surface sample; distinct = (pattern, configuration)")
ASSUMPTIONS = [
    "number of hits at/around samples lying on the surface (|g|<tol_on_surface) is don't-care; they must still be ordered, on the curve and on the plane",
    "cubic interpolation: a crossing may be reported at an end of its bracketing interval (Newton clamp) - accepted inside the closed interval",
    "default dedup tolerances (1e-9 time, 1e-12 point)",
]

ATOMS7 = [-2.0, -1.0, -5e-13, 0.0, 5e-13, 1.0, 2.0]
ATOMS5 = [-2.0, -1.0, 0.0, 1.0, 2.0]
TOL_ON = 1e-12

_bk = None


def worker_init():
    global _bk
    from hiten.algorithms.poincare.synodic.backend import _SynodicDetectionBackend

    _bk = _SynodicDetectionBackend()


NORMALS = {
    "axis": (np.array([0.0, 1.0, 0.0, 0.0, 0.0, 0.0]), 0.25),
    "oblique": (np.array([0.0, 1.0, 0.0, 0.0, 0.0, 1.0]), -1.5),
}


def _embed(pattern, grid, normal_kind, scale):
    N = len(pattern)
    n, c = NORMALS[normal_kind]
    if grid == "uniform":
        t = 0.5 * np.arange(N, dtype=float)
    else:
        dts = [0.5, 0.125, 1.0, 0.25, 0.75, 0.375, 2.0]
        t = np.concatenate(([0.0], np.cumsum([dts[k % len(dts)] for k in range(N - 1)])))
    X = np.zeros((N, 6))
    X[:, 0] = scale * (1.0 + np.arange(N))          # strictly monotone projection coordinate
    X[:, 3] = 0.5 * np.arange(N) ** 2               # second projection coordinate
    X[:, 2] = [(k % 3) * 0.5 for k in range(N)]
    X[:, 5] = [((k + 1) % 3) * 0.5 for k in range(N)] if normal_kind == "oblique" else [0.125 * k for k in range(N)]
    g = np.asarray(pattern, dtype=float)
    if normal_kind == "axis":
        X[:, 1] = c + g
    else:
        X[:, 1] = (c + g) - X[:, 5]
    return t, X, n, c


def _check_pattern(pattern, direction, interp, refine, grid, normal_kind, scale):
    """returns list of (key, what, obs, exp)"""
    t, X, n, c = _embed(pattern, grid, normal_kind, scale)
    hits = _bk.detect_on_trajectory(t, X, normal=n, offset=c, plane_coords=("x", "vx"), interp_kind=interp,
                                    segment_refine=refine, direction=direction)
    g = X @ n - c
    N = len(g)
    out = []
    cfg = "dir=%s/%s/refine=%d/%s/%s" % (direction, interp, refine, grid, normal_kind)
    th = [float(h.time) for h in hits]
    # 1. ordering
    for a, b in zip(th, th[1:]):
        if not b > a:
            out.append(("order", "hit times not strictly increasing: %r" % (th,), th, None))
            break
    on = np.abs(g) < TOL_ON
    used = [False] * len(hits)
    for k in range(N - 1):
        strict = (not on[k]) and (not on[k + 1])
        inside = [i for i, tt in enumerate(th) if t[k] < tt < t[k + 1]]
        if not strict:
            for i in inside:
                used[i] = True
            continue
        sign_change = g[k] * g[k + 1] < 0
        admissible = sign_change and (direction is None or (direction == 1 and g[k] < 0) or (direction == -1 and g[k] > 0))
        at_nodes = [i for i, tt in enumerate(th) if tt == t[k] or tt == t[k + 1]]
        if admissible:
            if interp == "linear":
                if len(inside) != 1:
                    out.append(("count", "segment %d (g=%g->%g) has an admissible sign change but %d hits strictly inside" % (k, g[k], g[k + 1], len(inside)), len(inside), 1))
                else:
                    used[inside[0]] = True
                    a = g[k] / (g[k] - g[k + 1])
                    texp = t[k] + a * (t[k + 1] - t[k])
                    if abs(th[inside[0]] - texp) > 1e-12 * (1 + abs(texp)):
                        out.append(("time", "hit time %.15g differs from linear-interpolation root %.15g in segment %d" % (th[inside[0]], texp, k), th[inside[0]], texp))
            else:
                if len(inside) > 1 or (len(inside) + len(at_nodes)) < 1:
                    out.append(("count", "segment %d (g=%g->%g) has an admissible sign change but %d hits inside / %d at its ends" % (k, g[k], g[k + 1], len(inside), len(at_nodes)), len(inside), 1))
                for i in inside + at_nodes:
                    used[i] = True
        else:
            if inside:
                out.append(("spurious", "segment %d (g=%g->%g) has no admissible sign change but %d hit(s) strictly inside" % (k, g[k], g[k + 1], len(inside)), len(inside), 0))
                for i in inside:
                    used[i] = True
    # hits exactly on nodes: the node must be on the surface, or (cubic) end of an admissible crossing segment (marked above)
    for i, tt in enumerate(th):
        if used[i]:
            continue
        ks = [k for k in range(N) if t[k] == tt]
        if not ks:
            out.append(("outside", "hit at t=%.15g lies outside the sampled span" % tt, tt, None))
        elif not on[ks[0]]:
            out.append(("node_not_on_surface", "hit reported exactly at sample %d where g=%g" % (ks[0], g[ks[0]]), g[ks[0]], 0.0))
    # 2. state on curve / plane
    for h, tt in zip(hits, th):
        k = int(np.searchsorted(t, tt, side="right") - 1)
        k = min(max(k, 0), N - 2)
        s = (tt - t[k]) / (t[k + 1] - t[k])
        st = np.asarray(h.state, dtype=float)
        gh = float(st @ n - c)
        if interp == "linear":
            xlin = X[k] + s * (X[k + 1] - X[k])
            if np.max(np.abs(st - xlin)) > 1e-11 * (1 + np.max(np.abs(xlin))):
                out.append(("state", "hit state is not the linear interpolation of its bracketing samples at the hit time (segment %d)" % k, st, xlin))
            if abs(gh) > 1e-11:
                out.append(("off_plane", "g(hit state)=%.3e for linear interpolation" % gh, gh, 0.0))
        else:
            dtk = t[k + 1] - t[k]
            d0 = (g[k + 1] - g[k - 1]) / (t[k + 1] - t[k - 1]) if k >= 1 else (g[k + 1] - g[k]) / dtk
            d1 = (g[k + 2] - g[k]) / (t[k + 2] - t[k]) if k + 2 < N else (g[k + 1] - g[k]) / dtk
            # Hermite interpolant of the samples: |value| <= max end value + (4/27) dt (|d0|+|d1|)
            bound = max(abs(g[k]), abs(g[k + 1])) + (4.0 / 27.0) * dtk * (abs(d0) + abs(d1)) + 1e-11
            if abs(gh) > bound:
                out.append(("off_plane", "g(hit state)=%.3e exceeds the interpolation bound %.3e of its segment" % (gh, bound), gh, bound))
        p2 = np.asarray(h.point2d, dtype=float)
        if abs(p2[0] - st[0]) > 0 or abs(p2[1] - st[3]) > 0:
            out.append(("projection", "point2d is not the (x,vx) projection of the hit state", p2, [st[0], st[3]]))
    return [(cfg, key, what, obs, exp) for key, what, obs, exp in out], len(hits)


CONFIGS = [(d, i, r, gr, nk) for d in (None, 1, -1) for i in ("linear", "cubic") for r in (0, 1, 2)
           for gr in ("uniform", "nonuniform") for nk in ("axis", "oblique")]


def k_patterns(params):
    atoms = ATOMS7 if params["atoms"] == 7 else ATOMS5
    N = params["N"]
    first = params["first"]  # fixes the first atom -> slice of the product
    scale = params["scale"]
    viol = {}
    n = 0
    nontriv = 0
    nhits = 0
    for rest in itertools.product(atoms, repeat=N - 1):
        pat = (atoms[first],) + rest
        interesting = any(abs(a) < TOL_ON for a in pat) or any(a * b < 0 for a, b in zip(pat, pat[1:]))
        for (d, i, r, gr, nk) in CONFIGS:
            n += 1
            if interesting:
                nontriv += 1
            vs, k = _check_pattern(pat, d, i, r, gr, nk, scale)
            nhits += k
            for cfg, key, what, obs, exp in vs:
                kk = "pattern/%s/%s" % (key, i)
                if kk not in viol:
                    viol[kk] = violation(kk, "%s [pattern=%s %s]" % (what, list(pat), cfg), obs, exp,
                                         ("pattern_one", {"pattern": list(pat), "direction": d, "interp": i, "refine": r, "grid": gr, "normal": nk, "scale": scale}))
    return res(evals=n, nontrivial=nontriv, viol=list(viol.values()), stats={"hits_checked": nhits},
               sample={"first_atom": atoms[first], "N": N, "detector_calls": n, "hits": nhits})


def k_pattern_one(params):
    worker_init()
    vs, k = _check_pattern(tuple(params["pattern"]), params["direction"], params["interp"], params["refine"], params["grid"], params["normal"], params["scale"])
    return res(evals=1, nontrivial=1, viol=[violation("pattern/%s/%s" % (key, params["interp"]), what + " [" + cfg + "]", obs, exp) for cfg, key, what, obs, exp in vs])


# ------------------------------------------------------------------ analytic curves
def _curve(tt, w):
    # all components are first harmonics of w*t -> n.x(t) - c = R cos(w t - phi) - c for every normal
    return np.column_stack((np.cos(w * tt), np.sin(w * tt), 0.5 * np.cos(w * tt + 1.0), -np.sin(w * tt), np.cos(w * tt), -0.5 * np.sin(w * tt + 1.0)))


def _roots(n, c, w, t0, t1, direction):
    # g = a cos(wt) + b sin(wt) - c
    a = n[0] + 0.5 * math.cos(1.0) * n[2] + n[4] - 0.5 * math.sin(1.0) * n[5]
    b = n[1] - 0.5 * math.sin(1.0) * n[2] - n[3] - 0.5 * math.cos(1.0) * n[5]
    R = math.hypot(a, b)
    phi = math.atan2(b, a)
    if abs(c) >= R:
        return [], R
    d = math.acos(c / R)
    out = []
    m0 = int(math.floor((w * t0 - phi - d) / (2 * math.pi))) - 1
    for m in range(m0, m0 + int((t1 - t0) * w / (2 * math.pi)) + 4):
        for sgn in (+1, -1):
            th = (phi + sgn * d + 2 * math.pi * m) / w
            if t0 < th < t1:
                # dg/dt = -R w sin(w t - phi) ; at w t - phi = sgn*d : -R w sgn sin(d)
                dg = -sgn
                if direction is None or dg == direction:
                    out.append(th)
    return sorted(out), R


def k_analytic(params):
    n = np.array(params["normal"], dtype=float)
    c = params["offset"]
    w = params["w"]
    direction = params["direction"]
    interp = params["interp"]
    refine = params["refine"]
    grid = params["grid"]
    t0, t1 = params["t0"], params["t1"]
    viol = []
    errs_t, errs_x = [], []
    roots, R = _roots(n, c, w, t0, t1, direction)
    key0 = "analytic/%s" % interp
    case = None
    for rung, nn in enumerate(params["ladder"]):
        if grid == "uniform":
            tt = np.linspace(t0, t1, nn + 1)
        elif grid == "jagged":
            # strongly non-uniform grid: neighbouring intervals of very different length, no period-2 pattern
            mult = np.array([1.0, 3.0, 0.5, 2.0, 0.7])
            dts = np.array([mult[i % 5] for i in range(nn)])
            tt = t0 + (t1 - t0) * np.concatenate(([0.0], np.cumsum(dts))) / float(np.sum(dts))
        else:
            u = np.linspace(0.0, 1.0, nn + 1)
            tt = t0 + (t1 - t0) * (u + 0.15 * np.sin(2 * math.pi * u) / (2 * math.pi))  # smooth non-uniform grid
        X = _curve(tt, w)
        hits = _bk.detect_on_trajectory(tt, X, normal=n, offset=c, plane_coords=("x", "vx"), interp_kind=interp,
                                        segment_refine=refine, direction=direction)
        th = [float(h.time) for h in hits]
        if len(th) != len(roots):
            viol.append(violation(key0 + "/count", "n=%d samples: %d hits reported, %d exact crossings in (%g,%g) [normal=%s c=%g dir=%s refine=%d %s]" % (
                nn, len(th), len(roots), t0, t1, n.tolist(), c, direction, refine, grid), th, roots))
            return res(evals=1, nontrivial=1, viol=viol)
        if any(b <= a for a, b in zip(th, th[1:])):
            viol.append(violation(key0 + "/order", "hits not in increasing time order", th, roots))
        et = max([abs(a - b) for a, b in zip(th, roots)], default=0.0)
        ex = max([float(np.max(np.abs(np.asarray(h.state) - _curve(np.array([r]), w)[0]))) for h, r in zip(hits, roots)], default=0.0)
        errs_t.append(et)
        errs_x.append(ex)
        # per-hit bounds from the length of the hit's own sample interval (linear interpolation error of that interval)
        d_ang0 = math.acos(c / R) if abs(c) < R else 0.0
        slope0 = max(R * w * abs(math.sin(d_ang0)), 1e-9)
        for hobj, a, b in zip(hits, th, roots):
            kb = int(np.searchsorted(tt, b, side="right") - 1)
            kb = min(max(kb, 0), len(tt) - 2)
            hk = float(tt[kb + 1] - tt[kb])
            if interp == "cubic" and grid != "uniform":
                # the cubic scheme estimates slopes by differences over the neighbouring intervals: its error on a non-uniform grid is governed by the
                # longest of the three intervals involved (still O(h^2) locally; the statement promises the faster rate on uniform grids only)
                lo_i, hi_i = max(kb - 1, 0), min(kb + 2, len(tt) - 1)
                hk = float(np.max(np.diff(tt[lo_i:hi_i + 1])))
            whk = w * hk
            edge_k = kb < 2 or kb > len(tt) - 4
            if interp == "cubic" and grid == "uniform" and not edge_k:
                ge = R * (0.1 * whk ** 3 + whk ** 4 / 384.0)
                xe = 1.2 * (0.1 * whk ** 3 + whk ** 4 / 384.0)
            else:
                ge = R * whk * whk / 8.0
                xe = 1.2 * whk * whk / 8.0
            btk = 2.0 * ge / slope0 + 1e-12
            bxk = 2.0 * (xe + 1.12 * w * ge / slope0) + 1e-12
            exk = float(np.max(np.abs(np.asarray(hobj.state) - _curve(np.array([b]), w)[0])))
            if abs(a - b) > btk or exk > bxk:
                viol.append(violation(key0 + "/local_error", "n=%d: hit at t=%.9g (exact %.9g) in a sample interval of length %.3g: time error %.3e (bound %.3e), state error %.3e (bound %.3e) [normal=%s c=%g dir=%s refine=%d %s]" % (
                    nn, a, b, hk, abs(a - b), btk, exk, bxk, n.tolist(), c, direction, refine, grid), [abs(a - b), exk], [btk, bxk]))
                break
        # each hit inside its bracketing interval: exact root and hit in the same sample interval
        for a, b in zip(th, roots):
            ka = int(np.searchsorted(tt, a, side="right") - 1)
            kb = int(np.searchsorted(tt, b, side="right") - 1)
            if ka != kb and not (a == tt[kb] or a == tt[kb + 1]):
                viol.append(violation(key0 + "/bracket", "hit at %.12g is not in the sample interval [%g,%g] containing the exact crossing %.12g" % (a, tt[kb], tt[kb + 1], b), a, b))
                break
    # explicit interpolation-theory bounds per rung (C h^2 linear, C h^3 cubic on uniform grids):
    # a scheme of lower order, a wrong bracket or a wrong alpha violates them at the finer rungs
    d_ang = math.acos(c / R) if abs(c) < R else 0.0
    slope = R * w * abs(math.sin(d_ang))          # |dg/dt| at every crossing
    for rung, nn in enumerate(params["ladder"]):
        h = (t1 - t0) / nn * ({"uniform": 1.0, "jagged": 3.0 / 1.44 * 1.02}.get(grid, 1.16))   # longest sample interval
        wh = w * h
        lin_g = R * wh * wh / 8.0
        if interp == "cubic" and grid == "uniform":
            g_err = R * (0.1 * wh ** 3 + wh ** 4 / 384.0)
            x_err = 1.2 * (0.1 * wh ** 3 + wh ** 4 / 384.0)
        else:
            g_err = lin_g
            x_err = 1.2 * wh * wh / 8.0
        edge = any(r - t0 < 2.5 * h or t1 - r < 2.5 * h for r in roots)
        if edge and interp == "cubic":
            g_err = max(g_err, lin_g)       # one-sided slopes at the ends of the record
            x_err = max(x_err, 1.2 * wh * wh / 8.0)
        bt = 2.0 * g_err / slope + 1e-12
        bx = 2.0 * (x_err + 1.12 * w * g_err / slope) + 1e-12
        if errs_t[rung] > bt:
            viol.append(violation(key0 + "/time_error", "n=%d: hit time error %.3e exceeds the interpolation bound %.3e [normal=%s c=%g dir=%s refine=%d %s]" % (
                nn, errs_t[rung], bt, n.tolist(), c, direction, refine, grid), errs_t, bt))
            break
        if errs_x[rung] > bx:
            viol.append(violation(key0 + "/state_error", "n=%d: hit state error %.3e exceeds the interpolation bound %.3e [normal=%s c=%g dir=%s refine=%d %s]" % (
                nn, errs_x[rung], bx, n.tolist(), c, direction, refine, grid), errs_x, bx))
            break
    return res(evals=len(params["ladder"]), nontrivial=1 if roots else 0, sigs=None, viol=viol,
               stats={"max_time_err_finest_" + interp: errs_t[-1] if errs_t else 0.0, "crossings_matched": len(roots) * len(params["ladder"])},
               sample={"normal": n.tolist(), "offset": c, "exact_crossings": roots[:4], "time_err_ladder": errs_t, "state_err_ladder": errs_x})


# ------------------------------------------------------------------ batch interface
def k_batch(params):
    from hiten.algorithms.poincare.synodic.types import SynodicBackendRequest

    viol = []
    trajs = []
    for j, (w, nn) in enumerate([(1.0, 40), (1.7, 55), (0.4, 30), (2.3, 80)]):
        tt = np.linspace(0.1 * j, 9.0 + j, nn)
        trajs.append((tt, _curve(tt, w)))
    n = np.array(params["normal"], dtype=float)
    c = params["offset"]
    n_ev = 0
    for direction in (None, 1, -1):
        for interp in ("linear", "cubic"):
            for refine in (0, 2):
                kw = dict(normal=n, offset=c, plane_coords=("y", "vy"), interp_kind=interp, segment_refine=refine, tol_on_surface=1e-12,
                          dedup_time_tol=1e-9, dedup_point_tol=1e-12, max_hits_per_traj=None, newton_max_iter=4, direction=direction)
                try:
                    req = SynodicBackendRequest(trajectories=trajs, trajectory_indices=[5, 1, 7, 3], **kw)
                except TypeError as exc:
                    raise RuntimeError("SynodicBackendRequest signature changed: %s" % exc)
                out = _bk.run(req)
                n_ev += 1
                flat_t, flat_x, flat_i = [], [], []
                for idx, (tt, X) in zip([5, 1, 7, 3], trajs):
                    hs = _bk.detect_on_trajectory(tt, X, trajectory_index=idx, **kw)
                    for h in hs:
                        flat_t.append(h.time)
                        flat_x.append(h.state)
                        flat_i.append(idx)
                        if h.trajectory_index != idx:
                            viol.append(violation("batch/traj_index", "hit carries trajectory index %r, expected %r" % (h.trajectory_index, idx)))
                ok = (out.times is None and not flat_t) or (out.times is not None and len(out.times) == len(flat_t) and np.array_equal(out.times, np.array(flat_t))
                                                              and np.array_equal(out.states, np.array(flat_x)) and list(out.trajectory_indices) == flat_i
                                                              and np.array_equal(out.points, np.array(flat_x)[:, [1, 4]]))
                if not ok:
                    viol.append(violation("batch/arrays", "run(): response arrays are not the ordered concatenation of the per-trajectory hits [dir=%s %s refine=%d]" % (direction, interp, refine)))
    return res(evals=n_ev, nontrivial=n_ev, viol=viol[:3])


def k_cr3bp(params):
    """(iii) end to end: SynodicMap.compute on a propagated CR3BP orbit against crossings of an independent reference integration of the same orbit"""
    from hiten.system.base import System
    from hiten.system.orbits import HaloOrbit
    from hiten.system.maps.synodic import SynodicMap
    from scipy.integrate import solve_ivp
    from scipy.optimize import brentq

    system = System.from_bodies("earth", "moon")
    mu = float(system.mu)
    orbit = HaloOrbit(system.get_libration_point(params["point"]), amplitude_z=params["amp"], zenith="southern")
    orbit.correct()
    steps = params["steps"]
    orbit.propagate(steps=steps)
    x0 = np.array(orbit.initial_state, dtype=float)
    T = float(orbit.period)

    def f(t, s_):
        x, y, z, vx, vy, vz = s_
        r1 = math.sqrt((x + mu) ** 2 + y * y + z * z)
        r2 = math.sqrt((x - 1 + mu) ** 2 + y * y + z * z)
        return [vx, vy, vz, 2 * vy + x - (1 - mu) * (x + mu) / r1 ** 3 - mu * (x - 1 + mu) / r2 ** 3, -2 * vx + y - (1 - mu) * y / r1 ** 3 - mu * y / r2 ** 3, -(1 - mu) * z / r1 ** 3 - mu * z / r2 ** 3]
    dense = solve_ivp(f, (0.0, T), x0, method="DOP853", rtol=1e-13, atol=1e-14, dense_output=True)
    viol = []
    n = 0
    nontriv = 0
    idx = {"x": 0, "y": 1, "z": 2, "vx": 3, "vy": 4, "vz": 5}
    h = T / (steps - 1)
    for axis, off, plane in params["sections"]:
        for direction in (None, 1, -1):
            for interp_note in ("default",):
                n += 1
                tag = "axis=%s offset=%g direction=%s steps=%d" % (axis, off, direction, steps)
                try:
                    r = SynodicMap(orbit).compute(section_axis=axis, section_offset=off, plane_coords=tuple(plane), direction=direction)
                except Exception as exc:
                    viol.append(violation("cr3bp/raises", "SynodicMap.compute raised %s: %s [%s]" % (type(exc).__name__, str(exc)[:120], tag)))
                    continue
                pts = np.asarray(r.points, dtype=float).reshape(-1, 2)
                # reference crossings strictly inside (0, T) (samples lying on the surface at the ends are don't-care)
                ts = np.linspace(0.0, T, 20001)
                g = np.array([dense.sol(t)[idx[axis]] - off for t in ts])
                ref = []
                for k in range(len(ts) - 1):
                    if g[k] * g[k + 1] < 0:
                        tc = brentq(lambda t: dense.sol(t)[idx[axis]] - off, ts[k], ts[k + 1], xtol=1e-14)
                        d = 1 if g[k + 1] > g[k] else -1
                        if direction is None or d == direction:
                            if 2 * h < tc < T - 2 * h:
                                y = dense.sol(tc)
                                ref.append(np.array([y[idx[plane[0]]], y[idx[plane[1]]]]))
                nontriv += len(ref)
                tol = 5.0 * h * h + 1e-8     # linear interpolation error of a sample interval (second derivatives O(1) on this orbit), observed ~0.1 h^2
                for rp in ref:
                    dmin = float(np.min(np.linalg.norm(pts - rp, axis=1))) if len(pts) else float("inf")
                    if dmin > tol:
                        viol.append(violation("cr3bp/missed_or_misplaced", "reference crossing at plane point %s has no reported hit within %.1e (nearest %.3e; %d hits reported) [%s]" % (rp.tolist(), tol, dmin, len(pts), tag), dmin, tol))
                        break
                # every reported hit must be a reference crossing (or an end sample lying on the surface)
                allowed = list(ref)
                for tt in (0.0, T):
                    y = dense.sol(tt)
                    if abs(y[idx[axis]] - off) < 1e-6:
                        allowed.append(np.array([y[idx[plane[0]]], y[idx[plane[1]]]]))
                for p in pts:
                    dmin = min([float(np.linalg.norm(p - a)) for a in allowed], default=float("inf"))
                    if dmin > tol + 1e-6:
                        viol.append(violation("cr3bp/spurious_hit", "reported hit %s is not a crossing of the reference orbit (nearest %.3e) [%s]" % (p.tolist(), dmin, tag), dmin, tol))
                        break
    return res(evals=n + nontriv, nontrivial=nontriv, viol=viol[:4], stats={"cr3bp_crossings_matched": nontriv}, sample={"orbit": "EM L%d halo Az=%g" % (params["point"], params["amp"]), "steps": steps, "maps": n, "reference_crossings": nontriv})


KINDS = {"patterns": k_patterns, "pattern_one": k_pattern_one, "analytic": k_analytic, "batch": k_batch, "cr3bp": k_cr3bp}


def cases(tier, seed):
    out = []
    o = seed_offsets(seed, 8)
    scale = 1.0 + 0.25 * o[0]
    if tier == "quick":
        for f in range(7):
            out.append(("patterns", {"atoms": 7, "N": 5, "first": f, "scale": scale}))
    else:
        for f in range(7):
            out.append(("patterns", {"atoms": 7, "N": 6, "first": f, "scale": scale}))
        for f in range(5):
            out.append(("patterns", {"atoms": 5, "N": 7, "first": f, "scale": scale}))
    r2 = 1 / math.sqrt(2)
    normals = [[1, 0, 0, 0, 0, 0], [0, 1, 0, 0, 0, 0], [0, 0, 1, 0, 0, 0], [0, 0, 0, 0, 1, 0], [r2, r2, 0, 0, 0, 0], [r2, -r2, 0, 0, 0, 0],
               [0, r2, 0, 0, 0, r2], [0.3, -0.2, 0.5, 0.1, 0.7, -0.4]]
    offs = [0.0, 0.2 + 0.05 * o[1], -0.35 + 0.05 * o[2]]
    ladder = [64, 128, 256] if tier == "quick" else [64, 128, 256, 512]
    t0 = 0.013 + 0.01 * o[3]
    t1 = 11.3 + 0.1 * o[4]
    for n in normals:
        for c in offs:
            for d in (None, 1, -1):
                for interp in ("linear", "cubic"):
                    for refine in ((0, 1) if tier == "quick" else (0, 1, 2)):
                        for grid in ("uniform", "nonuniform", "jagged"):
                            out.append(("analytic", {"normal": n, "offset": c, "w": 1.0 + 0.1 * o[5], "direction": d, "interp": interp,
                                                     "refine": refine, "grid": grid, "t0": t0, "t1": t1, "ladder": ladder}))
    for steps in ((500, 2000) if tier == "quick" else (500, 1000, 2000, 4000)):
        out.append(("cr3bp", {"point": 1, "amp": 0.2, "steps": steps, "sections": [["y", 0.0, ["x", "z"]], ["z", 0.01, ["x", "y"]], ["x", 0.83, ["y", "vy"]], ["vy", 0.0, ["x", "z"]]]}))
    out.append(("batch", {"normal": [0, 1, 0, 0, 0, 0], "offset": 0.1}))
    out.append(("batch", {"normal": [r2, 0, 0, 0, r2, 0], "offset": -0.2}))
    return out
