"""C01 - equations of motion, linearisation and energy integral are mutually consistent.

Lattice: mu x base points (L1..L5 neighbourhoods, mid field, far field) x {-a,0,+a}^3 position
offsets x {-b,0,+b}^3 velocities (729 states per base point, z != 0 and vz != 0 by construction).
Reference: CR3BP field written in the harness in 30-digit mpmath arithmetic; its Jacobian by
30-digit central differences (no analytic formula re-typed).
"""
import math

import numpy as np

from engine.core import res, violation, seed_offsets

ID = "C01"
LEVEL = "exploration"
WORKERS = {"quick": 12, "thorough": 16}
RULE = ("system histories (create A, create B, use A, create A again, use B; all ordered pairs of mass ratios; newly forked process each) and the "
        "complete product mu x 7 base points x 3^6 state offsets (states within delta=0.02 of a primary skipped and counted) for field / Jacobian / "
        "variational system / Lie derivative of every energy observable; trajectories: 3 spatial seeds x {fixed 4,6,8; adaptive 5,8} x 2 mu for energy constancy; "
        "non-trivial = state with z != 0 and vz != 0 not skipped; distinct = distinct (mu, state)")
ASSUMPTIONS = [
    "reference field evaluated with mpmath at 30 digits; Jacobian reference = central differences of that field with step 1e-12 in 30-digit arithmetic",
    "Lie derivative of library energy functions computed with Richardson central differences in double precision (tolerance 2e-7 * scale)",
    "states closer than 0.02 to a primary are outside the statement and skipped",
]

DELTA = 0.02
_L = {}


def worker_init():
    if _L:
        return
    import mpmath as mp
    from hiten.algorithms.dynamics import rtbp
    from hiten.algorithms.common import energy as en

    mp.mp.dps = 30
    _L.update(mp=mp, rtbp=rtbp, en=en)


def _field_mp(s, mu):
    mp = _L["mp"]
    x, y, z, vx, vy, vz = s
    r1 = mp.sqrt((x + mu) ** 2 + y * y + z * z)
    r2 = mp.sqrt((x - 1 + mu) ** 2 + y * y + z * z)
    ax = 2 * vy + x - (1 - mu) * (x + mu) / r1 ** 3 - mu * (x - 1 + mu) / r2 ** 3
    ay = -2 * vx + y - (1 - mu) * y / r1 ** 3 - mu * y / r2 ** 3
    az = -(1 - mu) * z / r1 ** 3 - mu * z / r2 ** 3
    return [vx, vy, vz, ax, ay, az]


def _ref(state, mu):
    mp = _L["mp"]
    s = [mp.mpf(float(v)) for v in state]
    m = mp.mpf(float(mu))
    f = [float(v) for v in _field_mp(s, m)]
    h = mp.mpf("1e-12")
    J = np.zeros((6, 6))
    for j in range(6):
        sp = list(s)
        sm = list(s)
        sp[j] = s[j] + h
        sm[j] = s[j] - h
        fp = _field_mp(sp, m)
        fm = _field_mp(sm, m)
        for i in range(6):
            J[i, j] = float((fp[i] - fm[i]) / (2 * h))
    return np.array(f), J


def _base_points(mu):
    g = (mu / 3.0) ** (1.0 / 3.0)
    return {
        "L1": (1 - mu - g, 0.0, 0.0), "L2": (1 - mu + g, 0.0, 0.0), "L3": (-1.0, 0.0, 0.0),
        "L4": (0.5 - mu, math.sqrt(3) / 2, 0.0), "L5": (0.5 - mu, -math.sqrt(3) / 2, 0.0),
        "mid": (0.3, 0.4, 0.1), "far": (1.8, -1.2, 0.7),
    }


PHI_DENSE = np.array([[((3 * i + 5 * j) % 7 - 3) * 0.37 + (0.11 if i == j else 0.0) for j in range(6)] for i in range(6)])


def _systems(mu):
    key = ("sys", mu)
    if key not in _L:
        from hiten.system.base import System

        _L[key] = System.from_mu(mu)
    return _L[key]


def _lie(fun, state, f):
    """Richardson central-difference gradient of a library scalar function dotted with the field"""
    g = np.zeros(6)
    for j in range(6):
        def d(h):
            sp = state.copy()
            sm = state.copy()
            sp[j] += h
            sm[j] -= h
            return (fun(sp) - fun(sm)) / (2 * h)
        h = 2e-4
        g[j] = (4 * d(h / 2) - d(h)) / 3
    return float(g @ f), g


def k_states(params):
    rtbp, en = _L["rtbp"], _L["en"]
    mu = params["mu"]
    bp = params["base"]
    a, b = params["a"], params["b"]
    sysm = _systems(mu)
    frhs = sysm.dynsys.rhs
    jrhs = sysm.jacobian_dynsys.rhs
    vrhs = sysm.var_dynsys.rhs
    base = _base_points(mu)[bp]
    if bp in ("L1", "L2"):
        a = min(a, 0.5 * (mu / 3.0) ** (1.0 / 3.0))
    viol = {}
    n = 0
    skipped = 0
    nontriv = 0
    mx = {"max_field_err": 0.0, "max_jac_err": 0.0, "max_var_err": 0.0, "max_lie": 0.0}
    obs = {
        "crtbp_energy": lambda s: en.crtbp_energy(s, mu),
        "effective_potential+kinetic_energy": lambda s: en.effective_potential(s, mu) + en.kinetic_energy(s),
        "jacobi(energy_to_jacobi)": lambda s: en.energy_to_jacobi(en.crtbp_energy(s, mu)),
    }
    for ix in (-1, 0, 1):
        for iy in (-1, 0, 1):
            for iz in (-1, 0, 1):
                pos = (base[0] + ix * a, base[1] + iy * a * 1.1, base[2] + iz * a * 0.9)
                r1 = math.sqrt((pos[0] + mu) ** 2 + pos[1] ** 2 + pos[2] ** 2)
                r2 = math.sqrt((pos[0] - 1 + mu) ** 2 + pos[1] ** 2 + pos[2] ** 2)
                if min(r1, r2) < DELTA:
                    skipped += 27
                    continue
                for jx in (-1, 0, 1):
                    for jy in (-1, 0, 1):
                        for jz in (-1, 0, 1):
                            st = np.array([pos[0], pos[1], pos[2], jx * b, jy * b * 0.9, jz * b * 1.2])
                            n += 1
                            spatial = abs(st[2]) > 0 and abs(st[5]) > 0
                            if spatial:
                                nontriv += 1
                            case = ("state_one", {"mu": mu, "state": st.tolist()})
                            fref, Jref = _ref(st, mu)
                            sc = 1.0 + float(np.max(np.abs(fref)))
                            f = np.asarray(frhs(0.0, st))
                            e = float(np.max(np.abs(f - fref))) / sc
                            mx["max_field_err"] = max(mx["max_field_err"], e)
                            if e > 1e-12:
                                viol.setdefault("field", violation("field", "dynsys.rhs differs from the reference CR3BP field by %.3e (rel) at mu=%g state=%s" % (e, mu, st.tolist()), f, fref, case))
                            J = np.asarray(jrhs(0.0, st[:3].copy()))
                            scj = 1.0 + float(np.max(np.abs(Jref)))
                            dj = np.abs(J - Jref) / scj
                            ej = float(np.max(dj))
                            mx["max_jac_err"] = max(mx["max_jac_err"], ej)
                            if ej > 1e-9:
                                i, j = np.unravel_index(int(np.argmax(dj)), (6, 6))
                                viol.setdefault("jacobian/%d_%d" % (i, j), violation("jacobian/%d_%d" % (i, j), "jacobian_dynsys.rhs[%d,%d]=%.12g but d f_%d/d x_%d of the field = %.12g (mu=%g state=%s)" % (
                                    i, j, J[i, j], i, j, Jref[i, j], mu, st.tolist()), J[i, j], Jref[i, j], case))
                            # variational system, two Phi
                            for pname, Phi in (("I", np.eye(6)), ("dense", PHI_DENSE)):
                                y = np.concatenate((Phi.ravel(), st))
                                dy = np.asarray(vrhs(0.0, y))
                                e1 = float(np.max(np.abs(dy[36:] - fref))) / sc
                                e2 = float(np.max(np.abs(dy[:36].reshape(6, 6) - Jref @ Phi))) / (scj * (1 + np.max(np.abs(Phi))))
                                mx["max_var_err"] = max(mx["max_var_err"], e1, e2)
                                if e1 > 1e-12:
                                    viol.setdefault("var/state_block", violation("var/state_block", "variational system advances the state with a field differing from the reference by %.3e (mu=%g state=%s)" % (e1, mu, st.tolist()), dy[36:], fref, case))
                                if e2 > 1e-9:
                                    viol.setdefault("var/phi_block", violation("var/phi_block", "variational system: dPhi/dt != J*Phi (rel %.3e, Phi=%s, mu=%g state=%s)" % (e2, pname, mu, st.tolist()), dy[:36], (Jref @ Phi).ravel(), case))
                            # energies: Lie derivative along the library's own field (every 3rd velocity combo keeps cost down but all positions)
                            if (jx, jy, jz) in ((1, 1, 1), (-1, 0, 1), (0, -1, -1), (1, 0, 0), (0, 0, 0), (0, 0, 1)):
                                for oname, fun in obs.items():
                                    lie, g = _lie(fun, st, f)
                                    scl = 1.0 + float(np.max(np.abs(g)) * np.max(np.abs(f)))
                                    mx["max_lie"] = max(mx["max_lie"], abs(lie) / scl)
                                    if abs(lie) > 2e-7 * scl:
                                        diag = "generic"
                                        if abs(lie + st[2] * st[5] * (1 if "jacobi" not in oname else -2)) < 1e-6 * scl:
                                            diag = "dE/dt=-z*vz"
                                        key = "energy_lie/%s/%s" % (oname, diag)
                                        viol.setdefault(key, violation(key, "%s is not conserved by the field: dE/dt = %.6g at mu=%g state=%s (z*vz=%.6g)" % (
                                            oname, lie, mu, st.tolist(), st[2] * st[5]), lie, 0.0, case))
                                # second Jacobi formula: first-order change along the field must vanish
                                eps = 1e-6
                                two = np.vstack([st, st + eps * f])
                                rel = float(en._max_rel_energy_error(two, mu))
                                C0 = abs(-2 * en.crtbp_energy(st, mu)) + 1e-300
                                if rel * max(C0, 1e-14) / eps > 2e-4 * (1 + float(f @ f)):
                                    viol.setdefault("energy_lie/_max_rel_energy_error", violation("energy_lie/_max_rel_energy_error", "_max_rel_energy_error's Jacobi formula changes at first order along the field (%.3e) at mu=%g state=%s" % (rel * C0 / eps, mu, st.tolist()), rel, 0.0, case))
    return res(evals=n, nontrivial=nontriv, viol=list(viol.values()), stats=dict(mx, states_skipped_near_primary=skipped),
               sample={"mu": mu, "base": bp, "states": n, "skipped": skipped, **mx})


def k_state_one(params):
    """replay of a single lattice state (re-uses the batch code on a 1-point lattice)"""
    rtbp, en = _L["rtbp"], _L["en"]
    mu = params["mu"]
    st = np.array(params["state"], dtype=float)
    sysm = _systems(mu)
    viol = []
    fref, Jref = _ref(st, mu)
    f = np.asarray(sysm.dynsys.rhs(0.0, st))
    sc = 1.0 + float(np.max(np.abs(fref)))
    if float(np.max(np.abs(f - fref))) / sc > 1e-12:
        viol.append(violation("field", "field mismatch", f, fref))
    J = np.asarray(sysm.jacobian_dynsys.rhs(0.0, st[:3].copy()))
    scj = 1.0 + float(np.max(np.abs(Jref)))
    dj = np.abs(J - Jref) / scj
    for i in range(6):
        for j in range(6):
            if dj[i, j] > 1e-9:
                viol.append(violation("jacobian/%d_%d" % (i, j), "jacobian entry mismatch", J[i, j], Jref[i, j]))
    for pname, Phi in (("I", np.eye(6)), ("dense", PHI_DENSE)):
        dy = np.asarray(sysm.var_dynsys.rhs(0.0, np.concatenate((Phi.ravel(), st))))
        if float(np.max(np.abs(dy[36:] - fref))) / sc > 1e-12:
            viol.append(violation("var/state_block", "state block mismatch", dy[36:], fref))
        if float(np.max(np.abs(dy[:36].reshape(6, 6) - Jref @ Phi))) / (scj * (1 + np.max(np.abs(Phi)))) > 1e-9:
            viol.append(violation("var/phi_block", "phi block mismatch"))
    obs = {
        "crtbp_energy": lambda s: en.crtbp_energy(s, mu),
        "effective_potential+kinetic_energy": lambda s: en.effective_potential(s, mu) + en.kinetic_energy(s),
        "jacobi(energy_to_jacobi)": lambda s: en.energy_to_jacobi(en.crtbp_energy(s, mu)),
    }
    for oname, fun in obs.items():
        lie, g = _lie(fun, st, f)
        scl = 1.0 + float(np.max(np.abs(g)) * np.max(np.abs(f)))
        if abs(lie) > 2e-7 * scl:
            diag = "dE/dt=-z*vz" if abs(lie + st[2] * st[5] * (1 if "jacobi" not in oname else -2)) < 1e-6 * scl else "generic"
            viol.append(violation("energy_lie/%s/%s" % (oname, diag), "dE/dt=%g" % lie, lie, 0.0))
    eps = 1e-6
    rel = float(en._max_rel_energy_error(np.vstack([st, st + eps * f]), mu))
    C0 = abs(-2 * en.crtbp_energy(st, mu)) + 1e-300
    if rel * max(C0, 1e-14) / eps > 2e-4 * (1 + float(f @ f)):
        viol.append(violation("energy_lie/_max_rel_energy_error", "first-order change"))
    return res(viol=viol, nontrivial=1)


def _jacobi_ref(s, mu):
    x, y, z, vx, vy, vz = s
    r1 = math.sqrt((x + mu) ** 2 + y * y + z * z)
    r2 = math.sqrt((x - 1 + mu) ** 2 + y * y + z * z)
    return x * x + y * y + 2 * ((1 - mu) / r1 + mu / r2) - (vx * vx + vy * vy + vz * vz)


def k_trajectory(params):
    en = _L["en"]
    mu = params["mu"]
    sysm = _systems(mu)
    y0 = np.array(params["y0"], dtype=float)
    method, order = params["method"], params["order"]
    traj = sysm.propagate(y0, tf=params["tf"], steps=params["steps"], method=method, order=order)
    S = np.asarray(traj.states)
    viol = []
    dmin = min(float(np.min(np.sqrt((S[:, 0] + mu) ** 2 + S[:, 1] ** 2 + S[:, 2] ** 2))), float(np.min(np.sqrt((S[:, 0] - 1 + mu) ** 2 + S[:, 1] ** 2 + S[:, 2] ** 2))))
    if dmin < 0.05:
        # the statement is about states away from the primaries: an arc that passes one within 0.05 is outside it (integration accuracy is lost there)
        return res(evals=len(S), nontrivial=0, stats={"trajectories_skipped_close_approach": 1}, sample={"mu": mu, "method": method, "order": order, "skipped": "passes a primary within %.3f" % dmin})
    E = np.array([en.crtbp_energy(s, mu) for s in S])
    C = np.array([_jacobi_ref(s, mu) for s in S])
    dE = float(np.max(np.abs(E - E[0])))
    dC = float(np.max(np.abs(C - C[0])))
    zspan = float(np.max(S[:, 2] ** 2) - np.min(S[:, 2] ** 2))
    tol = params["tol"]
    if dC > tol:
        viol.append(violation("trajectory/reference_jacobi/%s%d" % (method, order), "reference Jacobi constant drifts by %.3e along System.propagate(method=%s, order=%d)" % (dC, method, order), dC, tol))
    elif dE > tol:
        viol.append(violation("trajectory/energy/%s%d" % (method, order), "reported energy varies by %.3e along a spatial trajectory (reference Jacobi varies only %.1e; z^2 varies by %.3e)" % (dE, dC, zspan), dE, tol))
    rel = float(en._max_rel_energy_error(S, mu))
    if rel * abs(C[0]) > tol:
        viol.append(violation("trajectory/_max_rel_energy_error/%s%d" % (method, order), "_max_rel_energy_error reports %.3e on a clean trajectory" % rel, rel, tol))
    return res(evals=len(S), nontrivial=1 if zspan > 1e-6 else 0, sigs=None, viol=viol,
               sample={"mu": mu, "method": method, "order": order, "energy_variation": dE, "jacobi_variation": dC, "z2_variation": zspan})


def k_objects(params):
    """PeriodicOrbit.energy/.jacobi and LibrationPoint.energy/.jacobi agree with a conserved reference (up to the documented constant)"""
    from hiten.system.base import System
    from hiten.system.orbits.base import GenericOrbit

    mu = params["mu"]
    sysm = _systems(mu)
    viol = []
    n = 0
    consts = []
    for pt_name in ("L1", "L2", "L3", "L4", "L5"):
        pt = sysm.get_libration_point(int(pt_name[1]))
        pos = np.asarray(pt.position, dtype=float)
        st = np.array([pos[0], pos[1], pos[2], 0, 0, 0.0])
        n += 1
        Cref = _jacobi_ref(st, mu)
        consts.append(("%s.energy" % pt_name, pt.energy + 0.5 * Cref))
        consts.append(("%s.jacobi" % pt_name, -0.5 * pt.jacobi + 0.5 * Cref))
    L1 = sysm.get_libration_point(1)
    for st in params["states"]:
        st = np.array(st, dtype=float)
        orb = GenericOrbit(L1, initial_state=st)
        n += 1
        Cref = _jacobi_ref(st, mu)
        consts.append(("orbit.energy@%s" % st.tolist(), orb.energy + 0.5 * Cref))
        consts.append(("orbit.jacobi@%s" % st.tolist(), -0.5 * orb.jacobi + 0.5 * Cref))
    # all these must equal one and the same constant (E = -C/2 + const): otherwise some reported value is not a function of the conserved quantity
    vals = np.array([c for _, c in consts])
    ref = np.median(vals)
    for nm, c in consts:
        if abs(c - ref) > 1e-10:
            viol.append(violation("objects/%s" % nm.split("@")[0], "%s = -C_ref/2 %+.6g but the other observables give offset %+.6g (mu=%g)" % (nm, c, ref, mu), c, ref))
    return res(evals=n, nontrivial=n, viol=viol[:4], sample={"mu": mu, "objects": n, "common_offset": float(ref)})


def k_history(params):
    """several systems created and used one after the other in one (newly forked) process: every one of them, whenever it is used,
    must still evaluate the field / Jacobian / variational equations of *its own* mass ratio"""
    from hiten.system.base import System

    viol, n, nt = {}, 0, 0
    names = ["%s mu=%g" % (op, mu) for op, mu in params["ops"]]
    for i, (op, mu) in enumerate(params["ops"]):
        if op == "new":
            _L[("sys", mu)] = System.from_mu(mu)
        for bp in params["bases"]:
            r = k_states({"mu": mu, "base": bp, "a": params["a"], "b": params["b"]})
            n += r["evals"]
            nt += r["nontrivial"]
            for v in r["viol"]:
                key = "history/" + v["key"]
                viol.setdefault(key, violation(key, "step %d of the sequence %s in one process: %s" % (i + 1, names, v["what"]), v["observed"], v["expected"], ("history", params)))
    return res(evals=n, nontrivial=nt, viol=list(viol.values()), sample={"history": names})


FRESH_KINDS = ("history",)
NONDETERMINISM_IS_VIOLATION = True  # field, Jacobian and energy are functions of (state, mu): a result that depends on what ran earlier in the process is a violation
KINDS = {"states": k_states, "state_one": k_state_one, "trajectory": k_trajectory, "objects": k_objects, "history": k_history}


def cases(tier, seed):
    o = seed_offsets(seed, 4, 0.2)
    a = 0.05 * (1 + o[0])
    b = 0.3 * (1 + o[1])
    mus = [3.0e-6, 0.01215, 0.3] if tier == "quick" else [1e-6, 3.0e-6, 9.5e-4, 0.01215, 0.1, 0.3, 0.5]
    out = []
    for mu in mus:
        for bp in ("L1", "L2", "L3", "L4", "L5", "mid", "far"):
            out.append(("states", {"mu": mu, "base": bp, "a": a, "b": b}))
    seeds = [[0.82, 0.05, 0.08, 0.05, 0.12, 0.1], [0.3, 0.4, 0.25, -0.3, 0.5, -0.2], [-0.9, 0.1, -0.3, 0.05, -0.3, 0.15]]
    for mu in ([0.01215] if tier == "quick" else [0.01215, 0.1]):
        for y0 in seeds:
            if mu > 0.05 and abs(y0[0] - 0.82) < 1e-9:
                y0 = [0.55] + y0[1:]      # the Earth-Moon L1-side seed would fly by the secondary of a mu=0.1 system
            for method, order in (("fixed", 4), ("fixed", 6), ("fixed", 8), ("adaptive", 5), ("adaptive", 8)):
                out.append(("trajectory", {"mu": mu, "y0": [y0[0] + 0.01 * o[2]] + y0[1:], "tf": 2.0, "steps": 2001, "method": method, "order": order, "tol": 1e-7}))
        out.append(("objects", {"mu": mu, "states": [[0.82, 0.0, 0.1, 0.0, 0.15, 0.05], [0.85, 0.02, -0.2, 0.1, 0.1, -0.3], [0.8, 0.0, 0.0, 0.0, 0.2, 0.0]]}))
    # system histories, each in a newly forked process: create A, create B, use A again, create a second A -- all ordered pairs of mass ratios
    hm = [3.0e-6, 0.01215, 0.3] if tier == "quick" else [3.0e-6, 9.5e-4, 0.01215, 0.3]
    for m1 in hm:
        for m2 in hm:
            if m1 != m2:
                out.append(("history", {"ops": [["new", m1], ["new", m2], ["use", m1], ["new", m1], ["use", m2]], "bases": ["mid", "L4"], "a": a, "b": b}))
    return out
