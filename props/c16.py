"""C16 - the symplectic integrator is symplectic, reversible, of its declared order and energy-bounded.

Lattice: Hamiltonian menu (separable, non-separable, degree <= 6) x states x h{+-0.01,+-0.05,+-0.2}
x order{2,4,6,8} x omega{0.5,5,50} on _recursive_update_poly directly (omega held fixed), plus the
public class with its omega heuristic.
"""
import math

import numpy as np

from engine.core import res, violation, seed_offsets

ID = "C16"
LEVEL = "exploration"
WORKERS = {"quick": 12, "thorough": 16}
RULE = ("complete product Hamiltonian menu x state menu x step sizes x orders{2,4,6,8} x omega{0.5,5,50}: Jacobian of the one-step map on the 12-D extended space by "
        "Richardson central differences (M^T Omega M = Omega), step(h) then step(-h), convergence ladders at fixed omega against a reference flow, long-run energy through the "
        "public integrator, recorded sub-step sequence (palindrome, weights sum to 1); non-trivial = non-separable Hamiltonian or h != 0 case evaluated; distinct = (H, state, h, order, omega)")
ASSUMPTIONS = [
    "extended phase space (Q,P,X,Y) with two-form dQ^dP + dX^dY as documented (Tao's method); exact sub-flows",
    "order threshold: overall ladder slope >= order - 0.75 at fixed omega",
    "energy boundedness: max |H-H0| over the second half of 8000 steps <= 3x the max over the first half (+1e-12)",
]

_L = {}


def worker_init():
    if _L:
        return
    from hiten.algorithms.integrators import symplectic as sy
    from engine import hamref

    _L.update(sy=sy, hamref=hamref, ham={})


def _ham(name):
    if name not in _L["ham"]:
        p = _L["hamref"].ham_menu()[name]
        hs = _L["hamref"].make_hamsys(p)
        _L["ham"][name] = (p, hs, _L["hamref"].grad_py(p))
    return _L["ham"][name]


def _step(qext, h, order, omega, hs):
    q = np.array(qext, dtype=float)
    _L["sy"]._recursive_update_poly(q, float(h), int(order), float(omega), hs.jac_H, hs.clmo_H)
    return q


OMEGA12 = None


def _omega12():
    global OMEGA12
    if OMEGA12 is None:
        J = np.zeros((6, 6))
        J[:3, 3:] = np.eye(3)
        J[3:, :3] = -np.eye(3)
        O = np.zeros((12, 12))
        O[:6, :6] = J
        O[6:, 6:] = J
        OMEGA12 = O
    return OMEGA12


STATES = [
    [0.2, -0.3, 0.25, 0.1, 0.3, -0.2],
    [-0.35, 0.15, 0.0, 0.0, -0.25, 0.3],
    [0.05, 0.0, -0.4, 0.3, 0.0, 0.1],
]


def k_map(params):
    name = params["ham"]
    p, hs, fpy = _ham(name)
    order = params["order"]
    viol = {}
    n = 0
    mx_s = 0.0
    mx_r = 0.0
    off = params["off"]
    for si, s0 in enumerate(STATES):
        y = np.array(s0) + off
        # generic extended state: (X,Y) != (Q,P) so that all 12 directions matter
        ext0 = np.concatenate((y, y + np.array([0.01, -0.02, 0.015, 0.02, 0.01, -0.01])))
        for h in params["hs"]:
            for omega in params["omegas"]:
                n += 1
                case = ("map_one", {"ham": name, "order": order, "state": ext0.tolist(), "h": h, "omega": omega})
                # (ii) reversibility
                fwd = _step(ext0, h, order, omega, hs)
                back = _step(fwd, -h, order, omega, hs)
                er = float(np.max(np.abs(back - ext0))) / (1 + float(np.max(np.abs(ext0))))
                mx_r = max(mx_r, er)
                if er > 1e-11:
                    viol.setdefault("reversibility/order%d" % order, violation("reversibility/order%d" % order, "step(h) then step(-h) does not restore the state: rel. error %.3e (H=%s order=%d h=%g omega=%g)" % (er, name, order, h, omega), back, ext0, case))
                # (i) symplecticity via Richardson central differences
                M = np.zeros((12, 12))
                d = 1e-4
                for j in range(12):
                    def dif(dd):
                        a = ext0.copy(); b = ext0.copy()
                        a[j] += dd; b[j] -= dd
                        return (_step(a, h, order, omega, hs) - _step(b, h, order, omega, hs)) / (2 * dd)
                    M[:, j] = (4 * dif(d / 2) - dif(d)) / 3
                S = M.T @ _omega12() @ M - _omega12()
                es = float(np.max(np.abs(S)))
                mx_s = max(mx_s, es)
                if es > 2e-7 * (1 + float(np.max(np.abs(M))) ** 2):
                    viol.setdefault("symplecticity/order%d" % order, violation("symplecticity/order%d" % order, "one-step map is not symplectic on the extended space: max|M^T Omega M - Omega| = %.3e (H=%s order=%d h=%g omega=%g)" % (es, name, order, h, omega), es, 0.0, case))
    return res(evals=n, nontrivial=n, viol=list(viol.values()), stats={"max_symplecticity_defect": mx_s, "max_reversibility_defect": mx_r},
               sample={"ham": name, "order": order, "maps_checked": n, "max_symplecticity_defect": mx_s, "max_reversibility_defect": mx_r})


def k_map_one(params):
    p, hs, fpy = _ham(params["ham"])
    ext0 = np.array(params["state"])
    h, order, omega = params["h"], params["order"], params["omega"]
    viol = []
    fwd = _step(ext0, h, order, omega, hs)
    back = _step(fwd, -h, order, omega, hs)
    if float(np.max(np.abs(back - ext0))) / (1 + float(np.max(np.abs(ext0)))) > 1e-11:
        viol.append(violation("reversibility/order%d" % order, "not reversible"))
    M = np.zeros((12, 12))
    d = 1e-4
    for j in range(12):
        def dif(dd):
            a = ext0.copy(); b = ext0.copy()
            a[j] += dd; b[j] -= dd
            return (_step(a, h, order, omega, hs) - _step(b, h, order, omega, hs)) / (2 * dd)
        M[:, j] = (4 * dif(d / 2) - dif(d)) / 3
    es = float(np.max(np.abs(M.T @ _omega12() @ M - _omega12())))
    if es > 2e-7 * (1 + float(np.max(np.abs(M))) ** 2):
        viol.append(violation("symplecticity/order%d" % order, "not symplectic %.3e" % es))
    return res(viol=viol, nontrivial=1)


def k_order(params):
    """(iii) convergence at fixed omega against a reference flow"""
    from scipy.integrate import solve_ivp

    name, order, omega = params["ham"], params["order"], params["omega"]
    p, hs, fpy = _ham(name)
    y0 = np.array(STATES[params["state"]]) + params["off"]
    Tspan = params["T"]
    ref = solve_ivp(fpy, (0, Tspan), y0, method="DOP853", rtol=1e-13, atol=1e-14).y[:, -1]
    errs = []
    base = {2: 64, 4: 16, 6: 16, 8: 16}[order]
    for kk in range(params["rungs"]):
        nst = base * 2 ** kk
        h = Tspan / nst
        q = np.concatenate((y0, y0))
        for _ in range(nst):
            _L["sy"]._recursive_update_poly(q, h, order, omega, hs.jac_H, hs.clmo_H)
        errs.append(float(np.max(np.abs(q[:6] - ref))))
    floor = 2e-12
    m = 0
    while m + 1 < len(errs) and errs[m + 1] > floor and errs[m] > floor:
        m += 1
    viol = []
    if m == 0:
        raise RuntimeError("uninformative symplectic ladder %s" % errs)
    slope = math.log2(errs[0] / errs[m]) / m
    # the key carries the *asymptotic* exponent (median of the last <= 3 pairwise ratios): at large omega the first rung is
    # pre-asymptotic and inflates the overall slope, which would give the same defect a different name
    pair = sorted(math.log2(errs[i] / errs[i + 1]) for i in range(max(0, m - 3), m))
    tail = pair[len(pair) // 2]
    if slope < order - 0.75:
        viol.append(violation("order/order%d/slope%d" % (order, int(round(tail))), "symplectic order %d with omega=%g on %s: error ladder %s converges with exponent %.2f (asymptotically %.2f)" % (
            order, omega, name, ["%.2e" % e for e in errs], slope, tail), errs, order))
    return res(evals=len(errs), nontrivial=m, viol=viol, stats={"ladder_halvings_above_floor": m},
               sample={"ham": name, "order": order, "omega": omega, "error_ladder": errs, "slope": slope})


def k_energy(params):
    """(iv) long-run energy through the public class (omega heuristic)"""
    name, order = params["ham"], params["order"]
    p, hs, fpy = _ham(name)
    y0 = np.array(STATES[0]) * params["scale"]
    integ = _L["sy"].ExtendedSymplectic(order=order)
    n = params["steps"]
    t = np.linspace(0.0, params["dt"] * n, n + 1)
    sol = integ.integrate(hs, y0, t)
    H = np.array([_L["hamref"].H_value(p, s) for s in sol.states[:: max(1, n // 2000)]])
    dH = np.abs(H - H[0])
    half = len(dH) // 2
    a, b = float(np.max(dH[:half])), float(np.max(dH[half:]))
    viol = []
    if not np.all(np.isfinite(sol.states)):
        viol.append(violation("energy/nonfinite/order%d" % order, "non-finite states from ExtendedSymplectic(order=%d) on %s" % (order, name)))
    elif b > 3.0 * a + 1e-12:
        viol.append(violation("energy/drift/order%d" % order, "energy error grows: max|H-H0| first half %.3e, second half %.3e (ExtendedSymplectic(order=%d), dt=%g, %d steps, H=%s)" % (a, b, order, params["dt"], n, name), b, a))
    else:
        # a secular (linear) drift only doubles the second-half maximum; by quarters it shows as a factor ~4 (bounded oscillations measured on the
        # unmodified scheme: <= 1.3 for every menu entry, dt in {0.02, 0.05, 0.1})
        q = len(dH) // 4
        qs = [float(np.max(dH[i * q:(i + 1) * q])) for i in range(4)]
        if qs[3] > 2.0 * qs[0] + 1e-12 and qs[2] > 1.5 * qs[0]:
            viol.append(violation("energy/secular/order%d" % order, "energy error drifts: max|H-H0| per quarter of the run %s (ExtendedSymplectic(order=%d), dt=%g, %d steps, H=%s)" % (
                ["%.2e" % v for v in qs], order, params["dt"], n, name), qs[3], qs[0]))
    if not np.array_equal(sol.times, t):
        viol.append(violation("energy/times", "integrate() does not return the requested time grid"))
    return res(evals=n, nontrivial=1, viol=viol, stats={"max_energy_error": max(a, b)}, sample={"ham": name, "order": order, "first_half": a, "second_half": b})


def k_kernel_roundtrip(params):
    """the multi-step kernel (it chooses omega itself from the step) over there-and-back grids: on the extended space every step is undone
    by the opposite step, so the trajectory must retrace itself and end where it started"""
    sy = _L["sy"]
    name, order = params["ham"], params["order"]
    p, hs, fpy = _ham(name)
    y0 = np.array(STATES[0]) + params["off"]
    viol = []
    n = nt = 0
    for c in params["cs"]:
        for h in params["hs"]:
            for grid in ([0.0, h, 0.0], [0.0, h, 2 * h, 3 * h, 2 * h, h, 0.0], [0.0, -h, 0.0]):
                t = np.array(grid)
                tr = np.asarray(sy._integrate_symplectic(y0, t, hs.jac_H, hs.clmo_H, order, c))
                n += 1
                if not np.all(np.isfinite(tr)):
                    continue
                nt += 1
                m = len(grid) // 2
                e_end = float(np.max(np.abs(tr[-1] - y0)))
                e_mirror = max(float(np.max(np.abs(tr[m - k] - tr[m + k]))) for k in range(1, m + 1))
                sc = 1.0 + float(np.max(np.abs(tr)))
                if max(e_end, e_mirror) > 1e-10 * sc:
                    viol.append(violation("kernel_roundtrip/order%d" % order, "_integrate_symplectic over the grid %s (c=%g, H=%s) does not retrace itself: end-start %.3e, mirror samples differ by %.3e" % (
                        grid, c, name, e_end, e_mirror), max(e_end, e_mirror), 0.0))
                    break
    return res(evals=n, nontrivial=nt, viol=viol[:2], sample={"ham": name, "order": order, "grids": n})


def k_substeps(params):
    """(v) sequence of sub-steps actually executed: palindrome, each family sums to the time step"""
    sy = _L["sy"]
    order = params["order"]
    rec = []
    g = sy._recursive_update_poly.py_func.__globals__
    saved = {k: g[k] for k in ("_phi_H_a_update_poly", "_phi_H_b_update_poly", "_phi_omega_H_c_update_poly", "_recursive_update_poly")}
    try:
        g["_phi_H_a_update_poly"] = lambda q, d, j, c: rec.append(("a", d))
        g["_phi_H_b_update_poly"] = lambda q, d, j, c: rec.append(("b", d))
        g["_phi_omega_H_c_update_poly"] = lambda q, d, w: rec.append(("c", d))
        g["_recursive_update_poly"] = saved["_recursive_update_poly"].py_func
        saved["_recursive_update_poly"].py_func(np.zeros(12), 1.0, order, 1.0, None, None)
    finally:
        for k, v in saved.items():
            g[k] = v
    viol = []
    kinds = [k for k, _ in rec]
    ds = [d for _, d in rec]
    if kinds != kinds[::-1] or any(abs(a - b) > 1e-14 for a, b in zip(ds, ds[::-1])):
        viol.append(violation("substeps/palindrome/order%d" % order, "sub-step sequence of order %d is not palindromic" % order, rec[:10]))
    for fam, tot in (("a", 1.0), ("b", 1.0), ("c", 1.0)):
        s = sum(d for k, d in rec if k == fam)
        if abs(s - tot) > 1e-12:
            viol.append(violation("substeps/sum_%s/order%d" % (fam, order), "phi_%s sub-steps of order %d sum to %.15g of the time step, expected 1" % (fam, order, s), s, tot))
    if len(rec) != 5 * 3 ** (order // 2 - 1):
        viol.append(violation("substeps/count/order%d" % order, "order %d executes %d sub-steps, expected %d" % (order, len(rec), 5 * 3 ** (order // 2 - 1))))
    # triple-jump weights: gamma must cancel the leading error term of the lower-order method: 2 g^(l+1) + (1-2g)^(l+1) = 0 with l = order-2
    if order >= 4:
        cs = [d for k, d in rec if k == "c"]
        m = len(cs) // 3
        g1 = sum(cs[:m])
        g2 = sum(cs[m:2 * m])
        l = order - 2
        r = 2 * g1 ** (l + 1) + g2 ** (l + 1)
        if abs(r) > 1e-12:
            viol.append(violation("substeps/triple_jump/order%d/g=%.4f" % (order, g1), "outer triple-jump weights (%.6f, %.6f, %.6f) do not cancel the h^%d error term of the order-%d kernel: 2g^%d+(1-2g)^%d = %.3e" % (g1, g2, g1, l + 1, l, l + 1, l + 1, r), r, 0.0))
    return res(evals=len(rec), nontrivial=1, viol=viol, sample={"order": order, "substeps": len(rec), "first": rec[:5]})


KINDS = {"kernel_roundtrip": k_kernel_roundtrip, "map": k_map, "map_one": k_map_one, "order": k_order, "energy": k_energy, "substeps": k_substeps}


def cases(tier, seed):
    o = seed_offsets(seed, 1, 0.02)
    off = o[0]
    hams = ["oscillators", "pendulum_taylor", "qp_couplings", "q2p2", "cubic_mixed", "saddle_center", "deg5", "deg6"]
    out = []
    for order in (2, 4, 6, 8):
        out.append(("substeps", {"order": order}))
        for name in hams:
            hs = [0.01, -0.05, 0.2] if tier == "quick" else [0.01, -0.01, 0.05, -0.05, 0.2, -0.2]
            om = [0.5, 50.0] if tier == "quick" else [0.5, 5.0, 50.0]
            out.append(("map", {"ham": name, "order": order, "hs": hs, "omegas": om, "off": off}))
        for name in (("q2p2", "cubic_mixed", "oscillators") if tier == "quick" else hams):
            for omega in ((5.0,) if tier == "quick" else (0.5, 5.0, 50.0)):
                out.append(("order", {"ham": name, "order": order, "omega": omega, "state": 0, "off": off, "T": 1.0, "rungs": 5}))
        for name in ("q2p2", "cubic_mixed"):
            out.append(("energy", {"ham": name, "order": order, "dt": 0.02, "steps": 8000 if tier == "quick" else 20000, "scale": 1.0}))
            for dt in (0.05, 0.1):
                # orders 6, 8 at these steps leave the stable range of the composition (sub-steps reach 1.17^3 h; the energy error jumps to
                # ~0.1 H within the first quarter and stays there): not a drift, and not what the statement is about
                if order <= 4:
                    out.append(("energy", {"ham": name, "order": order, "dt": dt, "steps": 20000 if tier == "quick" else 40000, "scale": 1.0}))
        for name in (("q2p2", "cubic_mixed", "oscillators") if tier == "quick" else hams):
            out.append(("kernel_roundtrip", {"ham": name, "order": order, "hs": [0.01, 0.04, 0.1, 0.3], "cs": [20.0, 5.0], "off": off}))
    return out
