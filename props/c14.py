"""C14 - centre-manifold Poincare maps stay on section and energy level under any parallelism.

engine   : CenterManifoldMap.compute over sections x methods x orders x dt ladder x iterations x
           seeding strategies: section coordinate exactly 0, energy level (dt-ladder exponent),
           points = projection of states onto the labelled plane, worker-count independence
           (multiset of (state, time) rows identical for 1..5 workers).
returns  : backend.run on explicit seeds (row i of the response is the return of seed i): every
           returned state is the first return, in the documented direction, of its seed under an
           independent reference flow of the same polynomial Hamiltonian (dt-ladder).
schedule : model checking of the engine's thread pool: ThreadPoolExecutor / as_completed rebound to
           a virtual executor (engine/vexec.py); all interleavings of the workers' backend calls and
           all completion orders are enumerated for 2-3 workers (4 workers: <= 2 preemptions).
prange   : the compiled _poincare_map under threads 1..16 x chunksizes is bitwise identical; its
           python source under the parx virtual scheduler writes only element i in iteration i.
"""
import itertools
import math

import numpy as np

from engine.core import res, violation, seed_offsets

ID = "C14"
LEVEL = "model_checking"
WORKERS = {"quick": 8, "thorough": 12}
NUMBA_THREADS = 16
NONDETERMINISM_IS_VIOLATION = True
RULE = ("engine: complete product section{q2,p2,q3,p3} x (method,order){fixed 4,6,8; symplectic 2,4} x dt{2e-2,1e-2,5e-3} x n_iter{1,3} x seeding{axis_aligned,radial,single} x workers{1,2,3,5}; "
        "returns: seeds x sections x (method,order) x dt ladder against a reference first return; schedule: every interleaving of backend calls and completion order of the thread pool "
        "for 2 and 3 workers x 2 iterations (4 workers: preemption bound 2); prange: threads 1..16 x chunksize{0,1,2,3} bitwise + virtual-scheduler write-set trace; "
        "non-trivial = map point / return / schedule with >= 2 workers; distinct = (configuration | seed | schedule)")
ASSUMPTIONS = [
    "energy accuracy of a map point is O(dt^2) (Hermite value at the linear crossing fraction): |H_cm-h0| <= 0.1*dt^2 on every rung (observed <= 0.02*dt^2; p-sections are the worst) and <= 1e-5 at dt = 1e-2; symplectic: <= 1e-3 (omega heuristic, no dt convergence)",
    "row order of the result may depend on worker completion order (allowed); the multiset of (state, time) rows may not",
    "virtual executor: scheduling points are the workers' backend calls (the only shared-object accesses); a schedule prefix that does not replay identically is a hard error",
]

_L = {}
SEC_IDX = {"q2": 0, "p2": 1, "q3": 2, "p3": 3}
PLANE = {"q2": ("q3", "p3"), "p2": ("q3", "p3"), "q3": ("q2", "p2"), "p3": ("q2", "p2")}


def worker_init():
    if _L:
        return
    import numba
    from hiten.system.base import System
    from hiten.system.center import CenterManifold
    from hiten.system.maps.center import CenterManifoldMap
    from hiten.algorithms.poincare.centermanifold.options import CenterManifoldMapOptions
    from hiten.algorithms.poincare.centermanifold.config import CenterManifoldMapConfig
    from hiten.algorithms.types.options import IntegrationOptions, WorkerOptions
    from hiten.algorithms.types.configs import IntegrationConfig
    from hiten.algorithms.poincare.core.options import IterationOptions, SeedingOptions
    from hiten.algorithms.polynomial import base as pb

    numba.set_num_threads(min(2, numba.config.NUMBA_NUM_THREADS))
    _L.update(numba=numba, System=System, CM=CenterManifold, Map=CenterManifoldMap, Opt=CenterManifoldMapOptions, Cfg=CenterManifoldMapConfig, IO=IntegrationOptions,
              WO=WorkerOptions, IC=IntegrationConfig, ItO=IterationOptions, SO=SeedingOptions, pb=pb, cms={})


def _cm(sysn, Ln, N):
    key = (str(sysn), Ln, N)
    if key not in _L["cms"]:
        system = _L["System"].from_bodies(*sysn) if isinstance(sysn, list) else _L["System"].from_mu(sysn)
        pt = system.get_libration_point(Ln)
        cm = _L["CM"](pt, N)
        H = cm.hamiltonian(N)
        _L["cms"][key] = (cm, H)
    return _L["cms"][key]


def _Hval(H, st):
    return complex(H(np.array([0.0, st[0], st[2], 0.0, st[1], st[3]]))).real


def _compute(cm, energy, section, method, order, dt, n_iter, n_seeds, n_workers, strategy="axis_aligned", seed_axis=None):
    """fresh map object per computation (no result cache is shared between configurations)"""
    pm = _L["Map"](cm, energy)
    pm.config = _L["Cfg"](seed_strategy=strategy, seed_axis=seed_axis, section_coord=section, integration=_L["IC"](method=method))
    opts = _L["Opt"](integration=_L["IO"](dt=dt, order=order, max_steps=4000), iteration=_L["ItO"](n_iter=n_iter), seeding=_L["SO"](n_seeds=n_seeds), workers=_L["WO"](n_workers=n_workers))
    r = pm.compute(section_coord=section, options=opts)
    return r


def _rows(r):
    st = np.asarray(r.states, dtype=float)
    tm = np.asarray(r.times, dtype=float) if r.times is not None else np.zeros(len(st))
    return sorted(tuple(np.concatenate((s, [t])).tolist()) for s, t in zip(st, tm))


def k_engine(params):
    cm, H = _cm(params["system"], params["point"], params["N"])
    h0 = params["energy"]
    section = params["section"]
    method, order = params["method"], params["order"]
    viol = {}
    n = 0
    nontriv = 0
    tag0 = "section=%s method=%s order=%d energy=%g" % (section, method, order, h0)

    def V(key, what, obs=None, exp=None):
        viol.setdefault("engine/" + key, violation("engine/" + key, what, obs, exp))

    for strategy, seed_axis in params["strategies"]:
        for n_iter in params["n_iters"]:
            emax = []
            ref_rows = None
            for dt in params["dts"]:
                tag = "%s strategy=%s n_iter=%d dt=%g" % (tag0, strategy, n_iter, dt)
                try:
                    r = _compute(cm, h0, section, method, order, dt, n_iter, params["n_seeds"], 1, strategy, seed_axis)
                except Exception as exc:
                    V("raises", "compute raised %s: %s [%s]" % (type(exc).__name__, str(exc)[:140], tag))
                    emax.append(None)
                    continue
                n += 1
                st = np.asarray(r.states, dtype=float)
                if st.shape[0] == 0:
                    V("empty", "no map point returned [%s]" % tag)
                    emax.append(None)
                    continue
                nontriv += st.shape[0]
                if np.any(st[:, SEC_IDX[section]] != 0.0):
                    V("off_section", "section coordinate %s is not exactly zero for %d of %d returned states (max |.| = %.3e) [%s]" % (
                        section, int(np.sum(st[:, SEC_IDX[section]] != 0.0)), len(st), float(np.max(np.abs(st[:, SEC_IDX[section]]))), tag))
                lab = tuple(r.labels)
                if lab != PLANE[section]:
                    V("labels", "labels %s, expected %s [%s]" % (lab, PLANE[section], tag), lab, PLANE[section])
                pts = np.asarray(r.points, dtype=float)
                proj = st[:, [SEC_IDX[lab[0]], SEC_IDX[lab[1]]]] if all(l in SEC_IDX for l in lab) else None
                if proj is None or pts.shape != proj.shape or np.max(np.abs(pts - proj)) > 0:
                    V("points_vs_labels/%s" % section, "results.points is not the projection of results.states onto the labelled plane %s: first point %s, first state %s [%s]" % (lab, pts[0].tolist(), st[0].tolist(), tag), pts[:2], None if proj is None else proj[:2])
                if r.times is None or len(r.times) != len(st) or np.any(np.asarray(r.times) <= 0):
                    V("times", "times missing, misaligned or non-positive [%s]" % tag)
                e = max(abs(_Hval(H, s) - h0) for s in st)
                emax.append(e)
                if abs(dt - 1e-2) < 1e-12:
                    ref_rows = _rows(r)
                    # symplectic: the error is governed by the omega heuristic of the extended-phase-space scheme (it does not shrink with dt; see C16), so only its size is bounded
                    # fixed step: absolute; symplectic: 1% of the energy above the libration point (the size of the error grows with the energy)
                    e_tol = 1e-5 if method == "fixed" else max(1e-3, 1e-2 * abs(h0))
                    if e > e_tol:
                        V("energy_level", "max |H_cm - h0| = %.3e over %d map points at dt=1e-2, tolerance %.1e [%s]" % (e, len(st), e_tol, tag), e, e_tol)
                    # worker-count independence
                    for nw in params["workers"]:
                        r2 = _compute(cm, h0, section, method, order, dt, n_iter, params["n_seeds"], nw, strategy, seed_axis)
                        n += 1
                        rows2 = _rows(r2)
                        if rows2 != ref_rows:
                            V("worker_dependence", "the multiset of (state, time) rows with %d workers differs from the 1-worker result (%d vs %d rows) [%s]" % (nw, len(rows2), len(ref_rows), tag), len(rows2), len(ref_rows))
            good = [e for e in emax if e is not None]
            if method == "fixed" and len(good) == len(params["dts"]) and len(good) >= 3 and good[0] > 1e-11 and good[-1] > 1e-12:
                slope = math.log2(good[0] / good[-1]) / (len(good) - 1)
                for dt_k, e_k in zip(params["dts"], good):
                    if e_k > 0.1 * dt_k * dt_k + 1e-10:
                        V("energy_bound", "max |H_cm - h0| = %.3e at dt=%g exceeds the second-order bound 0.1*dt^2 (ladder %s) [%s]" % (e_k, dt_k, ["%.2e" % e for e in good], "%s strategy=%s n_iter=%d" % (tag0, strategy, n_iter)), e_k, 0.1 * dt_k * dt_k)
                        break
                if slope < 1.0 and good[-1] > 1e-9:
                    V("energy_ladder", "max |H_cm - h0| over the dt ladder %s is %s: exponent %.2f < 2 [%s]" % (params["dts"], ["%.2e" % e for e in good], slope, "%s strategy=%s n_iter=%d" % (tag0, strategy, n_iter)), good, 2)
    return res(evals=n + nontriv, nontrivial=nontriv, viol=list(viol.values()), stats={"map_points_checked": nontriv, "map_computations": n}, sample={"tag": tag0, "computations": n, "map_points": nontriv})


# ------------------------------------------------------------------ genuine returns
def _poly_dict(H, clmo):
    pb = _L["pb"]
    out = {}
    polys = H.poly_H
    for d in range(len(polys)):
        a = np.asarray(polys[d])
        for pos in np.nonzero(a)[0]:
            k = tuple(int(x) for x in pb._decode_multiindex(int(pos), d, clmo))
            out[k] = complex(a[pos]).real
    return out


def _ref_returns(fpy, seed4, section, tmax, nmax=3):
    """crossings of the section coordinate along the reference flow, refined by Newton on exactly integrated states.
    q-sections: crossings with the conjugate momentum > 0 (well defined).  p-sections: the library's test is the sign of dq/dt one step after the
    crossing, where dq/dt ~ 0 (an extremum of q), so the admissible direction is not defined independently of dt: every crossing is returned and
    the caller accepts the first one of either direction that the map may have selected."""
    from scipy.integrate import solve_ivp
    from scipy.optimize import brentq

    y0 = np.array([0.0, seed4[0], seed4[2], 0.0, seed4[1], seed4[3]])
    sol = solve_ivp(fpy, (0.0, tmax), y0, method="DOP853", rtol=1e-12, atol=1e-14, dense_output=True)
    comp = {"q2": 1, "p2": 4, "q3": 2, "p3": 5}[section]
    ts = np.linspace(1e-4, tmax, 6000)
    g = np.array([sol.sol(t)[comp] for t in ts])
    out = []
    for k in range(len(ts) - 1):
        if g[k] * g[k + 1] < 0:
            tc = brentq(lambda t: sol.sol(t)[comp], ts[k], ts[k + 1], xtol=1e-14)
            y = sol.sol(tc)
            for _ in range(3):      # Newton on the exactly integrated state (the dense output is only ~1e-8 accurate)
                y = solve_ivp(fpy, (0.0, tc), y0, method="DOP853", rtol=1e-13, atol=1e-15).y[:, -1]
                f = fpy(tc, y)
                tc = tc - y[comp] / f[comp]
            y = solve_ivp(fpy, (0.0, tc), y0, method="DOP853", rtol=1e-13, atol=1e-15).y[:, -1]
            up = g[k + 1] > g[k]
            if section in ("q3", "q2"):
                ok = (y[5] > 0) if section == "q3" else (y[4] > 0)
                if not ok:
                    continue
            out.append((float(tc), np.array([y[1], y[4], y[2], y[5]]), bool(up)))
            if len(out) >= nmax:
                break
    return out


def _local_K(fpy, sref, section):
    """K = |g''/g'| |y'|_inf / 8 at a return of the reference flow (g = section coordinate along the flow)"""
    comp = {"q2": 1, "p2": 4, "q3": 2, "p3": 5}[section]
    y = np.array([0.0, sref[0], sref[2], 0.0, sref[1], sref[3]])
    f = np.asarray(fpy(0.0, y), dtype=float)
    eps = 1e-5
    ydd = (np.asarray(fpy(0.0, y + eps * f), dtype=float) - np.asarray(fpy(0.0, y - eps * f), dtype=float)) / (2 * eps)
    if abs(f[comp]) < 1e-12:
        return float("inf")
    return float(abs(ydd[comp] / f[comp]) * np.max(np.abs(f)) / 8.0)


def k_returns(params):
    from engine import hamref
    from hiten.algorithms.poincare.centermanifold.backend import _CenterManifoldBackend
    from hiten.algorithms.poincare.centermanifold.types import CenterManifoldBackendRequest

    cm, H = _cm(params["system"], params["point"], params["N"])
    h0 = params["energy"]
    section = params["section"]
    method, order = params["method"], params["order"]
    hs = H.hamsys
    pd = _poly_dict(H, hs.clmo_H)
    fpy = hamref.grad_py(pd)
    viol = {}
    tag0 = "section=%s method=%s order=%d energy=%g" % (section, method, order, h0)

    def V(key, what, obs=None, exp=None):
        viol.setdefault("returns/" + key, violation("returns/" + key, what, obs, exp))
    # seeds: first-iteration map points of the engine (on the section and on the energy level)
    r0 = _compute(cm, h0, section, "fixed", 8, 5e-3, 1, params["n_seeds"], 1)
    seeds = np.asarray(r0.states, dtype=float)
    n = 0
    nontriv = 0
    errs = {}
    Ks = {}
    refs = [_ref_returns(fpy, s, section, 40.0, nmax=1 if section in ("q2", "q3") else 2) for s in seeds]
    be = _CenterManifoldBackend()
    for dt in params["dts"]:
        req = CenterManifoldBackendRequest(seeds=seeds, dt=dt, jac_H=hs.jac_H, clmo_table=hs.clmo_H, section_coord=section, max_steps=8000, method=method, order=order)
        resp = be.run(req)
        flags = np.asarray(resp.flags)
        st = np.asarray(resp.states, dtype=float)
        tm = np.asarray(resp.times, dtype=float)
        j = 0
        for i in range(len(seeds)):
            n += 1
            if not flags[i]:
                if refs[i]:
                    V("missed", "seed %s has a return at t=%.6f under the reference flow but none was found (dt=%g) [%s]" % (seeds[i].tolist(), refs[i][0][0], dt, tag0))
                continue
            s_ret, t_ret = st[j], tm[j]
            j += 1
            if not refs[i]:
                V("spurious", "a return was reported for seed %s but the reference flow has none within t<40 (dt=%g) [%s]" % (seeds[i].tolist(), dt, tag0))
                continue
            nontriv += 1
            # q-sections: the first admissible return; p-sections: the first crossing of either direction (see _ref_returns)
            cand = min(refs[i], key=lambda c: abs(c[0] - t_ret))
            tc, sref = cand[0], cand[1]
            e = float(np.max(np.abs(s_ret - sref)))
            errs.setdefault(i, []).append(e)
            Ks[i] = max(Ks.get(i, 0.0), _local_K(fpy, sref, section))
            if abs(t_ret - tc) > 50 * dt * dt + 1e-6 + (5e-3 * tc if method == "symplectic" else 0.0):
                V("not_first_return", "returned point of seed %s has time %.6f, the first admissible returns of the reference flow are at %s (dt=%g) [%s]" % (seeds[i].tolist(), t_ret, [round(c[0], 6) for c in refs[i]], dt, tag0), t_ret, tc)
    for i, el in errs.items():
        if len(el) == len(params["dts"]) and len(el) >= 3:
            tol_fin = 2e-5 if method == "fixed" else 2e-3
            if el[-1] > tol_fin:
                V("position_error", "returned point of seed %s differs from the reference first return by %.3e at dt=%g (ladder %s) [%s]" % (seeds[i].tolist(), el[-1], params["dts"][-1], ["%.2e" % e for e in el], tag0), el[-1], tol_fin)
            if method == "fixed":
                # the crossing time comes from linear interpolation of the section function g inside the step: time error <= dt^2/8 |g''/g'|,
                # position error <= that times |y'|.  The constant K = |g''/g'| |y'| / 8 is evaluated on the reference flow at the return
                # (it reaches 0.13 for the widest seeds at energy 0.6); C = max(0.1, 1.5 K)
                C = max(0.1, 1.5 * Ks.get(i, 0.0))
                for dt_k, e_k in zip(params["dts"], el):
                    if e_k > C * dt_k * dt_k + 1e-9:
                        V("position_bound", "returned point of seed %s differs from the reference return by %.3e at dt=%g, more than the second-order bound %.3g*dt^2 = %.1e (ladder %s) [%s]" % (
                            seeds[i].tolist(), e_k, dt_k, C, C * dt_k * dt_k, ["%.2e" % e for e in el], tag0), e_k, C * dt_k * dt_k)
                        break
    return res(evals=n, nontrivial=nontriv, viol=list(viol.values()), stats={"returns_checked": nontriv}, sample={"tag": tag0, "seeds": len(seeds), "returns_checked": nontriv,
                                                                                                                 "first_error_ladder": list(errs.values())[0] if errs else None})


def k_map_history(params):
    """one CenterManifoldMap object: compute(section A) with configuration c1, assign configuration c2 (its own default section), compute(section B)
    with other runtime options, then read back both sections -- for every A, B and configuration pair.  Whatever is returned / stored for a
    section must lie on that section and on the energy level, and equal what a new map object returns for the same request"""
    cm, H = _cm(params["system"], params["point"], params["N"])
    h0 = params["energy"]
    viol = {}
    n = nt = 0

    def cfg(strategy, section):
        kw = dict(seed_strategy=strategy, seed_axis=None, integration=_L["IC"](method="fixed"))
        if section is not None:
            kw["section_coord"] = section
        return _L["Cfg"](**kw)

    def opts(n_iter, n_seeds):
        return _L["Opt"](integration=_L["IO"](dt=2e-2, order=4, max_steps=4000), iteration=_L["ItO"](n_iter=n_iter), seeding=_L["SO"](n_seeds=n_seeds), workers=_L["WO"](n_workers=1))

    def check(r, sec, tag, what):
        st = np.asarray(r.states, dtype=float)
        if st.shape[0] == 0:
            return 0
        off = float(np.max(np.abs(st[:, SEC_IDX[sec]])))
        e = max(abs(_Hval(H, s_) - h0) for s_ in st)
        lab = tuple(r.labels)
        if off != 0.0:
            viol.setdefault("map_history/off_section", violation("map_history/off_section", "%s: points are not on %s=0 (max |%s| = %.3e) [%s]" % (what, sec, sec, off, tag), off, 0.0, ("map_history", params)))
        if lab != PLANE[sec]:
            viol.setdefault("map_history/labels", violation("map_history/labels", "%s: labels %s, expected %s [%s]" % (what, lab, PLANE[sec], tag), lab, PLANE[sec], ("map_history", params)))
        if e > 1e-4:
            viol.setdefault("map_history/energy_level", violation("map_history/energy_level", "%s: max |H_cm - h0| = %.3e [%s]" % (what, e, tag), e, 1e-4, ("map_history", params)))
        return st.shape[0]

    A = params["first_section"]
    for s1, s2 in (("axis_aligned", "radial"), ("radial", "axis_aligned"), ("axis_aligned", "axis_aligned")):
        for c2_section in (None, A):
            for B in ("q2", "p2", "q3", "p3"):
                tag = "energy=%g: config(%s, section %s) compute(%s, n_iter=1); config(%s, section %s) compute(%s, n_iter=2)" % (h0, s1, A, A, s2, c2_section or "default", B)
                try:
                    pm = _L["Map"](cm, h0)
                    pm.config = cfg(s1, A)
                    r1 = pm.compute(section_coord=A, options=opts(1, 4))
                    pm.config = cfg(s2, c2_section)
                    r2 = pm.compute(section_coord=B, options=opts(2, 3))
                    fresh = _L["Map"](cm, h0)
                    fresh.config = cfg(s2, c2_section)
                    rf = fresh.compute(section_coord=B, options=opts(2, 3))
                except Exception as exc:
                    viol.setdefault("map_history/raises", violation("map_history/raises", "%s: %s [%s]" % (type(exc).__name__, str(exc)[:140], tag), None, None, ("map_history", params)))
                    continue
                n += 1
                nt += check(r1, A, tag, "first result")
                nt += check(r2, B, tag, "second result")
                if _rows(r2) != _rows(rf):
                    viol.setdefault("map_history/differs_from_new_object", violation("map_history/differs_from_new_object", "the second result differs from what a new map object returns for the same request (%d vs %d rows) [%s]" % (
                        len(_rows(r2)), len(_rows(rf)), tag), len(_rows(r2)), len(_rows(rf)), ("map_history", params)))
                for sec in {A, B}:
                    try:
                        check(pm.get_section(sec), sec, tag, "get_section(%s) afterwards" % sec)
                    except Exception:
                        pass
    return res(evals=n + nt, nontrivial=nt, viol=list(viol.values()), stats={"map_histories": n}, sample={"first_section": A, "histories": n, "points_checked": nt})


# ------------------------------------------------------------------ schedules of the thread pool
def k_sched(params):
    from engine import vexec
    from hiten.algorithms.poincare.centermanifold import engine as eng_mod
    from hiten.algorithms.poincare.centermanifold.backend import _CenterManifoldBackend

    cm, H = _cm(params["system"], params["point"], params["N"])
    h0 = params["energy"]
    section = params["section"]
    nw = params["n_workers"]
    n_iter = params["n_iter"]
    viol = {}
    ref = _rows(_compute(cm, h0, section, "fixed", 4, 2e-2, n_iter, params["n_seeds"], 1))
    orig_run = _CenterManifoldBackend.run
    saved = (eng_mod.ThreadPoolExecutor, eng_mod.as_completed)
    transitions = [0]

    def run_once(prefix):
        sched = vexec.Scheduler(prefix)
        VEx, vas = vexec.make_bindings(sched)

        def patched_run(self_, request):
            sched.sync()
            return orig_run(self_, request)
        eng_mod.ThreadPoolExecutor, eng_mod.as_completed = VEx, vas
        _CenterManifoldBackend.run = patched_run
        try:
            r = _compute(cm, h0, section, "fixed", 4, 2e-2, n_iter, params["n_seeds"], nw)
        finally:
            eng_mod.ThreadPoolExecutor, eng_mod.as_completed = saved
            _CenterManifoldBackend.run = orig_run
        transitions[0] += len(sched.trace)
        st = np.asarray(r.states, dtype=float)
        tm = np.asarray(r.times, dtype=float)
        return sched.trace, (_rows(r), tuple(sched.completed), st.shape[0], tm.shape[0])

    import time as _time
    _t0 = _time.time()
    outs = vexec.explore(run_once, max_schedules=params.get("cap", 20000), preemption_bound=params.get("preemption_bound"))
    _dt = _time.time() - _t0
    orders = set()
    for choices, (rows, completed, ns, nt) in outs:
        orders.add(completed)
        if rows != ref or ns != nt:
            key = "sched/result_depends_on_schedule"
            viol.setdefault(key, violation(key, "with %d workers the (state, time) rows under schedule %s (completion order %s) differ from the serial result: %d rows vs %d; first differing row %s" % (
                nw, choices, completed, len(rows), len(ref), next((a for a, b in zip(rows, ref) if a != b), None)), choices, None,
                ("sched_one", dict(params, schedule=choices))))
    # replay determinism: the first schedule again
    if outs:
        tr2, obs2 = run_once(outs[0][0])
        if obs2[0] != outs[0][1][0]:
            raise RuntimeError("schedule replay is not deterministic")
    return res(evals=len(outs), nontrivial=len(outs) if nw >= 2 else 0, viol=list(viol.values()),
               stats={"schedules": len(outs), "scheduling_decisions": transitions[0], "max_completion_orders": len(orders)},
               sample={"n_workers": nw, "n_iter": n_iter, "preemption_bound": params.get("preemption_bound"), "schedules": len(outs), "distinct_completion_orders": len(orders),
                       "seconds": round(_dt, 1), "example": outs[min(3, len(outs) - 1)][0] if outs else None})


def k_sched_one(params):
    p = dict(params)
    sch = p.pop("schedule")
    p["cap"] = 1
    # replay only this schedule
    from engine import vexec
    from hiten.algorithms.poincare.centermanifold import engine as eng_mod
    from hiten.algorithms.poincare.centermanifold.backend import _CenterManifoldBackend

    cm, H = _cm(p["system"], p["point"], p["N"])
    ref = _rows(_compute(cm, p["energy"], p["section"], "fixed", 4, 2e-2, p["n_iter"], p["n_seeds"], 1))
    orig_run = _CenterManifoldBackend.run
    saved = (eng_mod.ThreadPoolExecutor, eng_mod.as_completed)
    sched = vexec.Scheduler(sch)
    VEx, vas = vexec.make_bindings(sched)

    def patched_run(self_, request):
        sched.sync()
        return orig_run(self_, request)
    eng_mod.ThreadPoolExecutor, eng_mod.as_completed = VEx, vas
    _CenterManifoldBackend.run = patched_run
    try:
        r = _compute(cm, p["energy"], p["section"], "fixed", 4, 2e-2, p["n_iter"], p["n_seeds"], p["n_workers"])
    finally:
        eng_mod.ThreadPoolExecutor, eng_mod.as_completed = saved
        _CenterManifoldBackend.run = orig_run
    v = []
    if _rows(r) != ref:
        v.append(violation("sched/result_depends_on_schedule", "rows differ from the serial result under schedule %s" % sch))
    return res(viol=v, nontrivial=1)


# ------------------------------------------------------------------ prange kernel
def k_prange(params):
    from engine import parx
    from hiten.algorithms.poincare.centermanifold import backend as bk

    numba = _L["numba"]
    cm, H = _cm(params["system"], params["point"], params["N"])
    hs = H.hamsys
    section = params["section"]
    r0 = _compute(cm, params["energy"], section, "fixed", 8, 5e-3, 1, 7, 1)
    seeds = np.ascontiguousarray(np.asarray(r0.states, dtype=float))
    args = (seeds, 2e-2, hs.jac_H, hs.clmo_H, 4, 4000, False, 3, section, 20.0)
    viol = {}
    n = 0
    old = numba.get_num_threads()
    try:
        numba.set_num_threads(1)
        ref = [np.array(a) for a in bk._poincare_map(*args)]
        for T in range(1, 17):
            numba.set_num_threads(T)
            for chunk in (0, 1, 2, 3):
                with numba.parallel_chunksize(chunk):
                    got = bk._poincare_map(*args)
                n += 1
                if any(not np.array_equal(a, b) for a, b in zip(got, ref)):
                    viol.setdefault("prange/thread_dependence", violation("prange/thread_dependence", "_poincare_map with %d threads (chunksize %d) is not bitwise identical to the 1-thread result" % (T, chunk)))
    finally:
        numba.set_num_threads(old)
    # virtual scheduler on the kernel's own python source: iteration i may only write element i of the outputs
    nsch = 0
    for Tv in (2, 3):
        for assign in ({i: i % Tv for i in range(len(seeds))}, {i: (i * 2 + 1) % Tv for i in range(len(seeds))}, {i: 0 if i < len(seeds) // 2 else Tv - 1 for i in range(len(seeds))}):
            for order in ("asc", "desc"):
                out, tr = parx.run_virtual(bk, "_poincare_map", args, Tv, assign, order, helpers={}, array_args=(0,))
                nsch += 1
                harmful, benign = tr.conflicts()
                if harmful:
                    viol.setdefault("prange/conflict", violation("prange/conflict", "conflicting accesses in the prange region of _poincare_map: %s" % (harmful[:3],), harmful[:5], []))
                outs = list(out) if (isinstance(out, (tuple, list)) or (isinstance(out, np.ndarray) and out.ndim == 2)) else [out]
                try:
                    same = all(np.array_equal(np.asarray(a), b) for a, b in zip(outs, ref))
                except Exception:
                    same = False
                if not same:
                    viol.setdefault("prange/virtual_result", violation("prange/virtual_result", "result under the virtual schedule (T=%d, %s) differs from the compiled 1-thread result" % (Tv, order)))
    return res(evals=n + nsch, nontrivial=n + nsch, viol=list(viol.values()), stats={"compiled_kernel_runs": n, "virtual_prange_schedules": nsch},
               sample={"section": section, "seeds": len(seeds), "compiled_runs": n, "virtual_schedules": nsch})


KINDS = {"map_history": k_map_history, "engine": k_engine, "returns": k_returns, "sched": k_sched, "sched_one": k_sched_one, "prange": k_prange}


def cases(tier, seed):
    o = seed_offsets(seed, 1, 0.1)
    sysn, Ln = ["earth", "moon"], 1
    N = 4
    energies = [0.4 * (1 + 0.2 * o[0])] if tier == "quick" else [0.2, 0.4 * (1 + 0.2 * o[0]), 0.6]
    out = []
    mo = [("fixed", 4), ("fixed", 6), ("fixed", 8), ("symplectic", 2), ("symplectic", 4)]
    if tier != "quick":
        mo.append(("symplectic", 6))
    for h0 in energies:
        for section in ("q2", "p2", "q3", "p3"):
            for method, order in mo:
                strategies = [["axis_aligned", None]]
                if (method, order) == ("fixed", 4):
                    strategies = [["axis_aligned", None], ["radial", None], ["single", PLANE[section][0]]] + ([["level_sets", None]] if tier != "quick" else [])
                out.append(("engine", {"system": sysn, "point": Ln, "N": N, "energy": h0, "section": section, "method": method, "order": order, "dts": [2e-2, 1e-2, 5e-3],
                                       "n_iters": [1, 3], "n_seeds": 4 if tier == "quick" else 6, "workers": [2, 3, 5], "strategies": strategies}))
            for method, order in (("fixed", 4), ("fixed", 8), ("symplectic", 4)):
                out.append(("returns", {"system": sysn, "point": Ln, "N": N, "energy": h0, "section": section, "method": method, "order": order, "dts": [2e-2, 1e-2, 5e-3], "n_seeds": 4}))
    h0 = energies[0]
    for section in (("q3",) if tier == "quick" else ("q3", "p2")):
        # unbounded = every interleaving of the workers' backend calls and every completion order
        out.append(("sched", {"system": sysn, "point": Ln, "N": N, "energy": h0, "section": section, "n_workers": 2, "n_iter": 3, "n_seeds": 4}))
        out.append(("sched", {"system": sysn, "point": Ln, "N": N, "energy": h0, "section": section, "n_workers": 3, "n_iter": 1, "n_seeds": 5}))
        out.append(("sched", {"system": sysn, "point": Ln, "N": N, "energy": h0, "section": section, "n_workers": 3, "n_iter": 2, "n_seeds": 5, "preemption_bound": 1 if tier == "quick" else None}))
        out.append(("sched", {"system": sysn, "point": Ln, "N": N, "energy": h0, "section": section, "n_workers": 4, "n_iter": 1, "n_seeds": 6, "preemption_bound": 1 if tier == "quick" else 2}))
    for section in ("q3", "p2"):
        out.append(("prange", {"system": sysn, "point": Ln, "N": N, "energy": h0, "section": section}))
    for section in ("q2", "p2", "q3", "p3"):
        out.append(("map_history", {"system": sysn, "point": Ln, "N": N, "energy": h0, "first_section": section}))
    return out


def finalize(cov, results, tier, case_list):
    cov["states"] = int(cov.get("schedules", 0)) + int(cov.get("virtual_prange_schedules", 0))
    cov["transitions"] = int(cov.get("scheduling_decisions", 0))
    cov["traces_validated_against_impl"] = int(cov.get("compiled_kernel_runs", 0)) + int(cov.get("schedules", 0))
    cov["explanation"] = ("states = complete schedules (interleavings of backend calls + completion orders) of the engine's thread pool executed on the real engine under the virtual executor, "
                          "plus virtual prange schedules; transitions = scheduling decisions taken; every schedule is an execution of the implementation itself")
    return []
