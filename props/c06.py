"""C06 - polynomial algebra is exact and independent of thread scheduling.

1. layout bijection: all multi-indices of total degree <= 30 in 6 variables (exhaustive).
2. every kernel / list-level operation against an exact dict-of-monomials reference on all
   basis monomials (linear / bilinear operations are decided by their action on a basis)
   plus forced-collision and dense inputs, real and complex.
3. schedules: (a) the compiled prange kernels under every (threads 1..16) x (chunksize)
   must be bitwise identical (integer-valued inputs => every partial sum is exact);
   (b) parx: the kernels' own Python source under a virtual scheduler, every assignment of
   the non-trivial iterations to T<=3 virtual threads x {ascending, descending} order,
   conflict-freedom invariant on traced arrays + result == reference.
"""
import itertools
import math

import numpy as np

from engine.core import res, violation, seed_offsets
from engine import refpoly as R

ID = "C06"
LEVEL = "model_checking"
WORKERS = {"quick": 8, "thorough": 12}
NUMBA_THREADS = 16
NONDETERMINISM_IS_VIOLATION = True
RULE = ("(1) all multi-indices deg<=30 (1,947,792) through encode/decode; (2) all monomial pairs deg<=3 (7056) for mul/poisson, all monomials "
        "deg<=5 x 6 variables for diff/integrate, menus of dense / colliding / complex polynomials for the list-level operations and substitutions; "
        "(3a) compiled kernels x threads 1..16 x chunksize{0,1,2,3,5,8} x 3 repeats; (3b) virtual scheduler: all T^n thread assignments (T<=3) x 2 orders "
        "for inputs with <=6 non-zero coefficients. non-trivial = result has a non-zero coefficient / schedule with >=2 threads used; distinct = distinct inputs x schedules")
ASSUMPTIONS = [
    "numba's native scheduler is covered through its public knobs (set_num_threads, set_parallel_chunksize) plus the source-level conflict analysis; machine-level interleavings of native code are not enumerated",
    "reference arithmetic uses small integer / Gaussian-integer coefficients so floating point is exact; tolerance 1e-12 relative otherwise",
    "the write-only scratch_exp array in _poly_diff is written by all threads and never read: reported as benign, not a violation",
]

_L = {}


def worker_init():
    if _L:
        return
    import numba
    from hiten.algorithms.polynomial import algebra as alg
    from hiten.algorithms.polynomial import base as pb
    from hiten.algorithms.polynomial import operations as ops

    numba.set_num_threads(min(2, numba.config.NUMBA_NUM_THREADS))   # schedule cases set their own counts
    psi, clmo = pb._init_index_tables(12)
    enc = pb._create_encode_dict_from_clmo(clmo)
    _L.update(numba=numba, alg=alg, pb=pb, ops=ops, psi=psi, clmo=clmo, enc=enc)


# ------------------------------------------------------------------ array <-> dict
def to_arr(p, deg, dtype=np.complex128):
    L = _L
    a = np.zeros(int(L["psi"][6, deg]), dtype=dtype)
    for k, v in p.items():
        assert sum(k) == deg
        idx = L["pb"]._encode_multiindex(np.array(k, dtype=np.int64), deg, L["enc"])
        assert idx >= 0
        a[idx] = v
    return a


def to_dict(a, deg):
    L = _L
    out = {}
    for pos in np.nonzero(a)[0]:
        k = tuple(int(x) for x in L["pb"]._decode_multiindex(int(pos), deg, L["clmo"]))
        out[k] = complex(a[pos])
    return out


def to_list(p, max_deg):
    from numba.typed import List

    lst = List()
    for d in range(max_deg + 1):
        lst.append(to_arr({k: v for k, v in p.items() if sum(k) == d}, d))
    return lst


def list_to_dict(lst):
    out = {}
    for d in range(len(lst)):
        out.update(to_dict(np.asarray(lst[d]), d))
    return out


def _cmp(got, exp, key, what, case=None, tol=1e-12):
    m, worst = R.maxdiff(got, R.clean(exp))
    if m > tol:
        return violation(key, "%s: coefficient of %s is %s, expected %s" % (what, worst, got.get(worst, 0), exp.get(worst, 0)),
                         {str(k): v for k, v in list(got.items())[:6]}, {str(k): v for k, v in list(exp.items())[:6]}, case)
    return None


# ------------------------------------------------------------------ 1. layout bijection
def k_layout(params):
    worker_init()
    import numba
    pb = _L["pb"]
    dlo, dhi = params["dlo"], params["dhi"]
    if params.get("table") == "created":
        # the tables every pipeline builds for itself: _init_index_tables + _create_encode_dict_from_clmo
        psi, clmo = pb._init_index_tables(30)
        enc = pb._create_encode_dict_from_clmo(clmo)
    else:
        psi, clmo, enc = pb._PSI_GLOBAL, pb._CLMO_GLOBAL, pb._ENCODE_DICT_GLOBAL
    dec, encf = pb._decode_multiindex, pb._encode_multiindex

    @numba.njit
    def sweep(d, psi, clmo, enc):
        # (a) every multi-index of degree d, enumerated by the harness, has a slot; slots are distinct and in range
        n = psi[6, d]
        seen = np.zeros(n, dtype=np.int64)
        bad = 0
        cnt = 0
        k = np.zeros(6, dtype=np.int64)
        for k0 in range(d + 1):
            for k1 in range(d + 1 - k0):
                for k2 in range(d + 1 - k0 - k1):
                    for k3 in range(d + 1 - k0 - k1 - k2):
                        for k4 in range(d + 1 - k0 - k1 - k2 - k3):
                            k5 = d - k0 - k1 - k2 - k3 - k4
                            k[0] = k0; k[1] = k1; k[2] = k2; k[3] = k3; k[4] = k4; k[5] = k5
                            idx = encf(k, d, enc)
                            cnt += 1
                            if idx < 0 or idx >= n:
                                bad += 1
                                continue
                            seen[idx] += 1
                            kk = dec(idx, d, clmo)
                            if kk[0] != k0 or kk[1] != k1 or kk[2] != k2 or kk[3] != k3 or kk[4] != k4 or kk[5] != k5:
                                bad += 1
        for i in range(n):
            if seen[i] != 1:
                bad += 1
        # (b) decode then encode is the identity on positions
        for pos in range(n):
            kk = dec(pos, d, clmo)
            for m in range(6):
                k[m] = kk[m]
            s = 0
            for m in range(6):
                if kk[m] < 0:
                    bad += 1
                s += kk[m]
            if s != d or encf(k, d, enc) != pos:
                bad += 1
        return cnt, bad

    viol = []
    total = 0
    for d in range(dlo, dhi + 1):
        cnt, bad = sweep(d, psi, clmo, enc)
        total += cnt
        n_exp = math.comb(d + 5, 5)
        if cnt != n_exp or int(psi[6, d]) != n_exp or len(clmo[d]) != n_exp:
            viol.append(violation("layout/count/deg%d" % d, "degree %d: %d monomials enumerated, table says %d, C(d+5,5)=%d" % (d, cnt, int(psi[6, d]), n_exp)))
        if bad:
            viol.append(violation("layout/bijection/deg%d" % d, "degree %d: %d encode/decode inconsistencies" % (d, bad), bad, 0))
    return res(evals=total, nontrivial=total, viol=viol, sample={"degrees": [dlo, dhi], "multi_indices": total})


# ------------------------------------------------------------------ 2. kernels on basis monomials
COEF = [2.0, -3.0, 1.0 + 2.0j, 5.0j]


def k_mul_pairs(params):
    worker_init()
    alg, psi, clmo, enc = _L["alg"], _L["psi"], _L["clmo"], _L["enc"]
    d1 = params["d1"]
    viol = {}
    n = 0
    m1 = R.monomials(d1)
    for d2 in range(0, 4):
        m2 = R.monomials(d2)
        for i, k1 in enumerate(m1):
            for j, k2 in enumerate(m2):
                a, b = COEF[(i + j) % 4], COEF[(i * 3 + j + 1) % 4]
                p, q = {k1: a}, {k2: b}
                n += 1
                got = to_dict(alg._poly_mul(to_arr(p, d1), d1, to_arr(q, d2), d2, psi, clmo, enc), d1 + d2)
                v = _cmp(got, R.mul(p, q), "mul/monomial_pair", "_poly_mul(%s*x^%s, %s*x^%s)" % (a, k1, b, k2),
                         ("mul_one", {"p": [[list(k1), [a.real, a.imag] if isinstance(a, complex) else [a, 0]]], "q": [[list(k2), [b.real, b.imag] if isinstance(b, complex) else [b, 0]]]}))
                if v and v["key"] not in viol:
                    viol[v["key"]] = v
                n += 1
                got = to_dict(alg._poly_poisson(to_arr(p, d1), d1, to_arr(q, d2), d2, psi, clmo, enc), max(0, d1 + d2 - 2))
                exp = R.poisson(p, q) if d1 + d2 >= 2 and d1 > 0 and d2 > 0 else {}
                v = _cmp(got, exp, "poisson/monomial_pair", "_poly_poisson(%s*x^%s, %s*x^%s)" % (a, k1, b, k2))
                if v and v["key"] not in viol:
                    viol[v["key"]] = v
    return res(evals=n, nontrivial=n, viol=list(viol.values()), sample={"deg_p": d1, "pairs": n})


def _mk(pairs):
    return {tuple(k): complex(c[0], c[1]) for k, c in pairs}


def k_mul_one(params):
    worker_init()
    alg, psi, clmo, enc = _L["alg"], _L["psi"], _L["clmo"], _L["enc"]
    p, q = _mk(params["p"]), _mk(params["q"])
    d1 = sum(next(iter(p)))
    d2 = sum(next(iter(q)))
    got = to_dict(alg._poly_mul(to_arr(p, d1), d1, to_arr(q, d2), d2, psi, clmo, enc), d1 + d2)
    v = _cmp(got, R.mul(p, q), "mul/monomial_pair", "_poly_mul")
    return res(viol=[v] if v else [])


def k_diff_int(params):
    worker_init()
    alg, psi, clmo, enc = _L["alg"], _L["psi"], _L["clmo"], _L["enc"]
    d = params["d"]
    viol = {}
    n = 0
    for i, k in enumerate(R.monomials(d)):
        c = COEF[i % 4]
        p = {k: c}
        arr = to_arr(p, d)
        for var in range(6):
            n += 2
            got = to_dict(alg._poly_diff(arr, var, d, psi, clmo, enc), max(0, d - 1))
            v = _cmp(got, R.diff(p, var), "diff/monomial", "_poly_diff(%s x^%s, var=%d)" % (c, k, var))
            if v:
                viol.setdefault(v["key"], v)
            ia = alg._poly_integrate(arr, var, d, psi, clmo, enc)
            got = to_dict(ia, d + 1)
            v = _cmp(got, R.integrate(p, var), "integrate/monomial", "_poly_integrate(%s x^%s, var=%d)" % (c, k, var))
            if v:
                viol.setdefault(v["key"], v)
            back = to_dict(alg._poly_diff(ia, var, d + 1, psi, clmo, enc), d)
            v = _cmp(back, p, "diff_integrate/roundtrip", "diff(integrate(x^%s)) var=%d" % (k, var))
            if v:
                viol.setdefault(v["key"], v)
    return res(evals=n, nontrivial=n, viol=list(viol.values()), sample={"degree": d, "calls": n})


# menu of multi-degree polynomials with small Gaussian-integer coefficients (forced slot collisions)
def _menu():
    e = lambda *idx: tuple(idx)
    X = [tuple(1 if j == i else 0 for j in range(6)) for i in range(6)]
    one = (0,) * 6
    P = {}
    P["x0+x1"] = {X[0]: 1, X[1]: 1}
    P["x0-x1"] = {X[0]: 1, X[1]: -1}
    P["all_lin"] = {X[i]: float(i + 1) for i in range(6)}
    P["cplx_lin"] = {X[0]: 1j, X[3]: 1, X[2]: 2 - 1j, X[5]: -3}
    P["quad_dense"] = {k: float((i % 5) - 2) or 1.0 for i, k in enumerate(R.monomials(2))}
    P["mixed"] = {one: 2, X[1]: -1, e(1, 0, 0, 1, 0, 0): 3, e(0, 2, 0, 0, 0, 1): 1j, e(0, 0, 1, 0, 1, 1): -2, e(2, 0, 0, 2, 0, 0): 1}
    P["h2_like"] = {e(1, 0, 0, 1, 0, 0): 2.0, e(0, 2, 0, 0, 0, 0): 0.5, e(0, 0, 0, 0, 2, 0): 0.5, e(0, 0, 2, 0, 0, 0): 1.5, e(0, 0, 0, 0, 0, 2): 1.5}
    P["cubic"] = {e(1, 1, 1, 0, 0, 0): 1, e(0, 0, 0, 1, 1, 1): -1, e(3, 0, 0, 0, 0, 0): 2, e(1, 0, 0, 0, 0, 2): 1 + 1j}
    P["const"] = {one: 3.0}
    P["zero"] = {}
    return P


def _deg(p):
    return max([sum(k) for k in p], default=0)


def k_list_ops(params):
    worker_init()
    ops, psi, clmo, enc = _L["ops"], _L["psi"], _L["clmo"], _L["enc"]
    P = _menu()
    names = sorted(P)
    a = names[params["i"]]
    viol = {}
    n = 0
    pa = P[a]

    def chk(got, exp, key, what):
        v = _cmp(got, exp, key, what)
        if v:
            viol.setdefault(v["key"], v)

    for max_deg in (4, 6):
        la = to_list(pa, max_deg)
        for b in names:
            pb_ = P[b]
            lb = to_list(pb_, max_deg)
            n += 3
            chk(list_to_dict(ops._polynomial_multiply(la, lb, max_deg, psi, clmo, enc)), R.mul(pa, pb_, max_deg), "list/multiply", "_polynomial_multiply(%s,%s,max_deg=%d)" % (a, b, max_deg))
            exp = {k: v for k, v in R.poisson(pa, pb_).items() if sum(k) <= max_deg}
            chk(list_to_dict(ops._polynomial_poisson_bracket(la, lb, max_deg, psi, clmo, enc)), exp, "list/poisson", "_polynomial_poisson_bracket(%s,%s,max_deg=%d)" % (a, b, max_deg))
            for scale in (1.0, -1.0, 2.5):
                la2 = to_list(pa, max_deg)
                ops._polynomial_add_inplace(la2, lb, scale, max_deg)
                chk(list_to_dict(la2), R.add(pa, pb_, scale), "list/add", "_polynomial_add_inplace(%s,%s,scale=%g)" % (a, b, scale))
        for k in range(0, 5):
            n += 1
            chk(list_to_dict(ops._polynomial_power(la, k, max_deg, psi, clmo, enc)), R.power(pa, k, max_deg), "list/power", "_polynomial_power(%s,%d,max_deg=%d)" % (a, k, max_deg))
        if max_deg == 4:
            # truncation degree below the exponent (terms of a base with a constant part survive the truncation)
            for md in (1, 2):
                pl = {k_: v for k_, v in pa.items() if sum(k_) <= md}
                ll = to_list(pl, md)
                for k in range(0, 5):
                    n += 1
                    chk(list_to_dict(ops._polynomial_power(ll, k, md, psi, clmo, enc)), R.power(pl, k, md), "list/power_truncated", "_polynomial_power(%s truncated at degree %d, k=%d, max_deg=%d)" % (a, md, k, md))
        jac = ops._polynomial_jacobian(la, max_deg, psi, clmo, enc)
        for var in range(6):
            n += 3
            d, _ = ops._polynomial_differentiate(la, var, max_deg, psi, clmo, psi, clmo, enc)
            chk(list_to_dict(d), R.diff(pa, var), "list/differentiate", "_polynomial_differentiate(%s,var=%d)" % (a, var))
            chk(list_to_dict(jac[var]), R.diff(pa, var), "list/jacobian", "_polynomial_jacobian(%s)[%d]" % (a, var))
            ii, _ = ops._polynomial_integrate(la, var, max_deg, psi, clmo, psi, clmo, enc)
            chk(list_to_dict(ii), R.integrate(pa, var), "list/integrate", "_polynomial_integrate(%s,var=%d)" % (a, var))
        for pt in ([0.5, -0.25, 2.0, 1.0, -1.5, 0.75], [1j, 0.5, -1 + 0.5j, 2.0, 0.0, -0.25j]):
            n += 1
            got = complex(ops._polynomial_evaluate(la, np.array(pt, dtype=np.complex128), clmo))
            exp = complex(R.evaluate(pa, pt))
            if abs(got - exp) > 1e-12 * (1 + abs(exp)):
                viol.setdefault("list/evaluate", violation("list/evaluate", "_polynomial_evaluate(%s, %s) = %s, expected %s" % (a, pt, got, exp), got, exp))
    return res(evals=n, nontrivial=n, viol=list(viol.values()), sample={"poly": a, "terms": len(pa), "calls": n})


def _cmenu(o):
    I = np.eye(6)
    perm = I[[3, 0, 4, 1, 5, 2]]
    Cint = np.array([[1, 2, 0, 0, 0, 0], [0, 1, 0, -1, 0, 0], [0, 0, 1, 0, 0, 3], [1, 0, 0, 1, 0, 0], [0, 0, 2, 0, 1, 0], [0, -1, 0, 0, 0, 1]], dtype=float)
    s = 1.0
    Cc = np.array([[1, 0, 0, 0, 0, 0], [0, s, 0, 0, 1j * s, 0], [0, 0, s, 0, 0, 1j * s], [0, 0, 0, 1, 0, 0], [0, 1j * s, 0, 0, s, 0], [0, 0, 1j * s, 0, 0, s]], dtype=complex)
    sing = Cint.copy()
    sing[5] = sing[0] + sing[1]
    return {"identity": I, "perm": perm, "int": Cint, "complexify": Cc, "singular": sing}


def k_substitute(params):
    worker_init()
    ops, psi, clmo, enc = _L["ops"], _L["psi"], _L["clmo"], _L["enc"]
    CM = _cmenu(None)
    cname = params["C"]
    C = CM[cname]
    viol = {}
    n = 0
    max_deg = 3
    polys = [({k: COEF[i % 4]}, "x^%s" % (k,)) for d in params["degs"] for i, k in enumerate(R.monomials(d))]
    if params.get("menu"):
        polys += [(p, nm) for nm, p in _menu().items() if _deg(p) <= 4]
        max_deg = 4
    shifts = np.array([0.5, 0.0, -1.0, 0.0, 2.0, 0.0])
    for p, nm in polys:
        lp = to_list(p, max_deg)
        n += 1
        got = list_to_dict(ops._substitute_linear(lp, C.astype(np.complex128), max_deg, psi, clmo, enc))
        v = _cmp(got, R.substitute(p, C.tolist(), None, max_deg), "substitute_linear/" + cname, "_substitute_linear(%s, C=%s)" % (nm, cname))
        if v:
            viol.setdefault(v["key"], v)
        # coordinate form of the same statement: new(y) == old(C y)
        y = np.array([0.5, -0.25, 0.75, 1.0, -0.5, 0.25], dtype=np.complex128)
        lhs = complex(R.evaluate(got, y.tolist()))
        rhs = complex(R.evaluate(p, (C @ y).tolist()))
        if abs(lhs - rhs) > 1e-11 * (1 + abs(rhs)):
            viol.setdefault("substitute_linear/pointwise/" + cname, violation("substitute_linear/pointwise/" + cname, "new(y) != old(C y) for %s" % nm, lhs, rhs))
        if params.get("affine"):
            n += 1
            got = list_to_dict(ops._substitute_affine(lp, C.astype(np.complex128), shifts.astype(np.complex128), max_deg, psi, clmo, enc))
            v = _cmp(got, R.substitute(p, C.tolist(), shifts.tolist(), max_deg), "substitute_affine/" + cname, "_substitute_affine(%s, C=%s)" % (nm, cname))
            if v:
                viol.setdefault(v["key"], v)
    return res(evals=n, nontrivial=n, viol=list(viol.values()), sample={"C": cname, "polys": len(polys)})


# ------------------------------------------------------------------ 3a. real scheduler knobs
def _sched_inputs():
    # integer-valued dense inputs; lengths 21, 56, 126 are not multiples of most thread counts
    out = []
    for (d1, d2) in ((2, 2), (3, 2), (4, 3)):
        n1, n2 = math.comb(d1 + 5, 5), math.comb(d2 + 5, 5)
        p = np.array([((3 * i) % 7) - 3 for i in range(n1)], dtype=np.complex128) + 1j * np.array([(i % 3) - 1 for i in range(n1)])
        q = np.array([((5 * i) % 9) - 4 for i in range(n2)], dtype=np.complex128)
        out.append((p, d1, q, d2))
    return out


def k_sched_real(params):
    worker_init()
    numba, alg, psi, clmo, enc = _L["numba"], _L["alg"], _L["psi"], _L["clmo"], _L["enc"]
    if numba.config.NUMBA_NUM_THREADS < 16:
        raise RuntimeError("need NUMBA_NUM_THREADS>=16, have %d" % numba.config.NUMBA_NUM_THREADS)
    inp = _sched_inputs()
    refs = []
    for (p, d1, q, d2) in inp:
        refs.append((to_arr(R.mul(to_dict(p, d1), to_dict(q, d2)), d1 + d2),
                     [to_arr(R.diff(to_dict(p, d1), v), d1 - 1) for v in range(6)],
                     to_arr(R.poisson(to_dict(p, d1), to_dict(q, d2)), d1 + d2 - 2)))
    viol = {}
    n = 0
    outcomes = set()
    chunk = params["chunk"]
    old = numba.get_num_threads()
    try:
        for T in range(1, 17):
            numba.set_num_threads(T)
            for rep in range(3):
                for (p, d1, q, d2), (rm, rd, rp) in zip(inp, refs):
                    with numba.parallel_chunksize(chunk):
                        got = alg._poly_mul(p, d1, q, d2, psi, clmo, enc)
                        gd = [alg._poly_diff(p, v, d1, psi, clmo, enc) for v in range(6)]
                        gp = alg._poly_poisson(p, d1, q, d2, psi, clmo, enc)
                    n += 8
                    outcomes.add(hash(got.tobytes()))
                    if not np.array_equal(got, rm):
                        viol.setdefault("sched_real/mul", violation("sched_real/mul", "_poly_mul differs from exact result with %d threads, chunksize %d (deg %d x %d), max diff %g" % (T, chunk, d1, d2, float(np.max(np.abs(got - rm)))), None, None))
                    for v in range(6):
                        if not np.array_equal(gd[v], rd[v]):
                            viol.setdefault("sched_real/diff", violation("sched_real/diff", "_poly_diff differs from exact result with %d threads, chunksize %d" % (T, chunk)))
                    if not np.array_equal(gp, rp):
                        viol.setdefault("sched_real/poisson", violation("sched_real/poisson", "_poly_poisson differs from exact result with %d threads, chunksize %d" % (T, chunk)))
    finally:
        numba.set_num_threads(old)
    return res(evals=n, nontrivial=n, viol=list(viol.values()), stats={"compiled_kernel_runs": n, "max_distinct_outcomes": len(outcomes)},
               sample={"chunksize": chunk, "threads": "1..16", "repeats": 3, "distinct_mul_outcomes": len(outcomes)})


# ------------------------------------------------------------------ 3b. virtual scheduler
def _parx_inputs():
    e = lambda *i: tuple(i)
    ins = []
    # (p, q): few non-zero coefficients, products colliding in the same output slot
    ins.append(("collide2x2", {e(1, 0, 0, 0, 0, 0): 1.0, e(0, 1, 0, 0, 0, 0): 1.0}, {e(1, 0, 0, 0, 0, 0): 1.0, e(0, 1, 0, 0, 0, 0): -1.0}))
    ins.append(("collide3x3", {e(2, 0, 0, 0, 0, 0): 2.0, e(1, 1, 0, 0, 0, 0): 1j, e(0, 2, 0, 0, 0, 0): -1.0}, {e(2, 0, 0, 0, 0, 0): 1.0, e(1, 1, 0, 0, 0, 0): 3.0, e(0, 2, 0, 0, 0, 0): 1.0}))
    ins.append(("spread4", {e(1, 0, 0, 1, 0, 0): 1.0, e(0, 1, 0, 0, 1, 0): 2.0, e(0, 0, 1, 0, 0, 1): 3.0, e(0, 0, 0, 2, 0, 0): -1.0}, {e(0, 0, 0, 1, 0, 0): 1.0, e(1, 0, 0, 0, 0, 0): 1.0}))
    ins.append(("six", {e(3, 0, 0, 0, 0, 0): 1.0, e(2, 1, 0, 0, 0, 0): 1.0, e(1, 2, 0, 0, 0, 0): 1.0, e(0, 3, 0, 0, 0, 0): 1.0, e(0, 0, 3, 0, 0, 0): 2.0, e(0, 0, 0, 0, 0, 3): -2.0},
                {e(1, 0, 0, 0, 0, 0): 1.0, e(0, 1, 0, 0, 0, 0): -1.0, e(0, 0, 0, 0, 0, 1): 1.0}))
    return ins


HELPERS = {"_decode_multiindex": (), "_encode_multiindex": (), "_fill_exponents": (3,)}


def k_parx(params):
    worker_init()
    from engine import parx

    alg, psi, clmo, enc = _L["alg"], _L["psi"], _L["clmo"], _L["enc"]
    name, p, q = _parx_inputs()[params["input"]]
    T = params["T"]
    kernel = params["kernel"]
    d1, d2 = _deg(p), _deg(q)
    pa, qa = to_arr(p, d1), to_arr(q, d2)
    nz = [int(i) for i in np.nonzero(pa)[0]]
    viol = {}
    n = 0
    used_multi = 0
    benign_total = 0
    transitions = 0
    outcomes = set()
    if kernel == "mul":
        exp = R.mul(p, q)
        dres = d1 + d2
    else:
        var = params["var"]
        exp = R.diff(p, var)
        dres = max(0, d1 - 1)
    for assign in parx.assignments(nz, T):
        for order in ("asc", "desc"):
            n += 1
            if len(set(assign.values())) > 1:
                used_multi += 1
            sched = {"T": T, "assign": {str(k): v for k, v in assign.items()}, "order": order}
            try:
                if kernel == "mul":
                    out, tr = parx.run_virtual(alg, "_poly_mul", (pa, d1, qa, d2, psi, clmo, enc), T, assign, order, HELPERS, array_args=(0, 2))
                else:
                    out, tr = parx.run_virtual(alg, "_poly_diff", (pa, var, d1, psi, clmo, enc), T, assign, order, HELPERS, array_args=(0,))
            except Exception as exc:
                viol.setdefault("parx/%s/exception" % kernel, violation("parx/%s/exception" % kernel, "kernel raised %s: %s under schedule %s (input %s)" % (type(exc).__name__, exc, sched, name), None, None,
                                                                            ("parx_one", dict(params, assign=sched["assign"], order=order))))
                continue
            transitions += tr.iterations
            harmful, benign = tr.conflicts()
            benign_total += len(benign)
            if any(t >= T or t < 0 for t in tr.tid_calls):
                viol.setdefault("parx/%s/thread_id" % kernel, violation("parx/%s/thread_id" % kernel, "thread id outside 0..T-1"))
            if harmful:
                viol.setdefault("parx/%s/conflict" % kernel, violation("parx/%s/conflict" % kernel, "conflicting accesses inside the parallel region: %s under schedule %s (input %s)" % (harmful[:3], sched, name), harmful[:5], [],
                                                                           ("parx_one", dict(params, assign=sched["assign"], order=order))))
            got = to_dict(out, dres)
            outcomes.add(tuple(sorted((k, complex(v)) for k, v in got.items())))
            v = _cmp(got, exp, "parx/%s/result" % kernel, "result under schedule %s (input %s)" % (sched, name), ("parx_one", dict(params, assign=sched["assign"], order=order)))
            if v:
                viol.setdefault(v["key"], v)
    return res(evals=n, nontrivial=used_multi, viol=list(viol.values()),
               stats={"schedules": n, "iteration_executions": transitions, "benign_writeonly_conflicts": benign_total, "max_outcomes_per_input": len(outcomes)},
               sample={"kernel": kernel, "input": name, "T": T, "schedules": n, "distinct_results": len(outcomes)})


def k_parx_one(params):
    worker_init()
    from engine import parx

    alg, psi, clmo, enc = _L["alg"], _L["psi"], _L["clmo"], _L["enc"]
    name, p, q = _parx_inputs()[params["input"]]
    T, kernel = params["T"], params["kernel"]
    d1, d2 = _deg(p), _deg(q)
    pa, qa = to_arr(p, d1), to_arr(q, d2)
    assign = {int(k): v for k, v in params["assign"].items()}
    viol = []
    try:
        if kernel == "mul":
            out, tr = parx.run_virtual(alg, "_poly_mul", (pa, d1, qa, d2, psi, clmo, enc), T, assign, params["order"], HELPERS, array_args=(0, 2))
            exp, dres = R.mul(p, q), d1 + d2
        else:
            out, tr = parx.run_virtual(alg, "_poly_diff", (pa, params["var"], d1, psi, clmo, enc), T, assign, params["order"], HELPERS, array_args=(0,))
            exp, dres = R.diff(p, params["var"]), max(0, d1 - 1)
    except Exception as exc:
        return res(viol=[violation("parx/%s/exception" % kernel, "kernel raised %s: %s" % (type(exc).__name__, exc))])
    harmful, benign = tr.conflicts()
    if harmful:
        viol.append(violation("parx/%s/conflict" % kernel, "conflicting accesses: %s" % (harmful[:3],), harmful[:5], []))
    v = _cmp(to_dict(out, dres), exp, "parx/%s/result" % kernel, "result")
    if v:
        viol.append(v)
    return res(viol=viol)


KINDS = {"layout": k_layout, "mul_pairs": k_mul_pairs, "mul_one": k_mul_one, "diff_int": k_diff_int, "list_ops": k_list_ops,
         "substitute": k_substitute, "sched_real": k_sched_real, "parx": k_parx, "parx_one": k_parx_one}


def cases(tier, seed):
    out = []
    for lo, hi in ((0, 20), (21, 25), (26, 28), (29, 30)):
        out.append(("layout", {"dlo": lo, "dhi": hi}))
        out.append(("layout", {"dlo": lo, "dhi": hi, "table": "created"}))
    for d1 in range(0, 4):
        out.append(("mul_pairs", {"d1": d1}))
    for d in range(0, 6 if tier == "quick" else 7):
        out.append(("diff_int", {"d": d}))
    for i in range(len(_menu())):
        out.append(("list_ops", {"i": i}))
    for c in ("identity", "perm", "int", "complexify", "singular"):
        out.append(("substitute", {"C": c, "degs": [0, 1, 2], "affine": True}))
        out.append(("substitute", {"C": c, "degs": [3], "affine": tier != "quick"}))
        out.append(("substitute", {"C": c, "degs": [], "menu": True, "affine": True}))
    for chunk in (0, 1, 2, 3, 5, 8):
        out.append(("sched_real", {"chunk": chunk}))
    ins = _parx_inputs()
    for i in range(len(ins)):
        for T in (1, 2, 3):
            if tier == "quick" and len(ins[i][1]) * math.log(T + 1e-9) > 6 * math.log(3) + 1e-9:
                continue
            out.append(("parx", {"kernel": "mul", "input": i, "T": T}))
            for var in ((0, 3) if tier == "quick" else range(6)):
                out.append(("parx", {"kernel": "diff", "input": i, "T": T, "var": var}))
    return out


def finalize(cov, results, tier, case_list):
    # model-checking style counts for the schedule part
    cov["states"] = int(cov.get("schedules", 0))                    # distinct (input, T, assignment, order) schedules executed
    cov["transitions"] = int(cov.get("iteration_executions", 0))    # prange iterations executed under the virtual scheduler
    cov["traces_validated_against_impl"] = int(cov.get("compiled_kernel_runs", 0))  # compiled-kernel runs compared with the model result
    cov["explanation"] = ("states = virtual schedules of the prange kernels explored exhaustively (all thread assignments x 2 orders, T<=3); "
                          "traces validated = runs of the compiled kernels under the real scheduler knobs compared bitwise with the same exact reference")
    if cov["states"] == 0 and any(k == "parx" for k, _ in case_list):
        raise RuntimeError("vacuous parx exploration")
    return []
