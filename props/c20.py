"""C20 - cached and reloaded objects always reflect their current logical state (seqx).

Explicit-state exploration over operation histories on *real* objects. For every history
o1..on (all sequences over the object's alphabet up to a depth bound) and every step i, the value
returned by o_i on the long-lived object is compared with the value the same operation returns on
a *fresh twin* that is constructed in brand-new System / point objects directly in the logical
state reached after o1..o(i-1) (the reference model tracks only the logical state: initial state,
period, last propagation settings, degree ...; it has no caches). After the history every observer
is compared the same way, and a save -> load round trip must preserve every observer.
"""
import itertools
import math
import os
import shutil
import tempfile

import numpy as np

from engine.core import res, violation, seed_offsets

ID = "C20"
LEVEL = "model_checking"
WORKERS = {"quick": 12, "thorough": 16}
RULE = ("all operation histories up to depth D over each object's alphabet (GenericOrbit: 9 ops, depth 3; CenterManifold: 6 ops, depth 3; halo orbit with correction options: 5 ops, depth 3; "
        "System/LibrationPoint: 8 ops, depth 2; thorough: depth +1 and Manifold), every step's return value and every final observer compared with a fresh twin in the same logical state; "
        "states = distinct canonical (logical state, observer outputs) reached, transitions = operations executed on the long-lived objects, traces validated = twin replays; "
        "non-trivial = history containing a mutation after a cached read")
ASSUMPTIONS = [
    "logical state of an orbit = (initial state, period, settings of the last propagation since the last period change); of a centre manifold = its degree; hamiltonian(d) is a pure query",
    "values are compared at 1e-9 relative (same arithmetic on both sides); shapes, flags and raised-vs-returned exactly",
    "the property text's 'random walks for long histories' is not built (sampling is a different family); the completed depth is reported",
]

MU = 0.01215
_L = {}


def worker_init():
    if _L:
        return
    from hiten.system.base import System
    from hiten.system.orbits.base import GenericOrbit
    from hiten.system.orbits import HaloOrbit
    from hiten.system.center import CenterManifold

    _L.update(System=System, GenericOrbit=GenericOrbit, HaloOrbit=HaloOrbit, CM=CenterManifold, tmp=tempfile.mkdtemp(prefix="c20-", dir=os.path.join(os.path.dirname(os.path.dirname(os.path.abspath(__file__))), ".cache")))
    import atexit
    atexit.register(lambda: shutil.rmtree(_L["tmp"], ignore_errors=True))


def _shared():
    """one System / L1 point per process for the orbit- and manifold-level models: every new System builds new right-hand-side closures and numba re-specialises
    all integrator kernels for them (10-30 s); the objects under test (orbits, centre manifolds) are still constructed fresh for every history and every twin,
    and sharing the point is exactly the 'objects that share services' situation of the statement"""
    if "shared" not in _L:
        system = _L["System"].from_mu(MU)
        _L["shared"] = (system, system.get_libration_point(1))
    return _L["shared"]


# ------------------------------------------------------------------ value normalisation
def norm(v):
    if v is None or isinstance(v, (bool, int, str)):
        return v
    if isinstance(v, float):
        return ("f", float("%.9e" % v)) if math.isfinite(v) else ("f", repr(v))
    if isinstance(v, complex):
        return ("c", float("%.9e" % v.real), float("%.9e" % v.imag))
    if isinstance(v, np.ndarray):
        a = np.asarray(v)
        if a.dtype.kind == "c":
            return ("ac", a.shape, tuple(float("%.8e" % x) for x in np.concatenate((a.real.ravel(), a.imag.ravel()))))
        return ("a", a.shape, tuple(float("%.8e" % x) for x in a.astype(float).ravel()))
    if isinstance(v, (list, tuple)):
        return tuple(norm(x) for x in v)
    if isinstance(v, Exception):
        return ("raised", type(v).__name__)
    return ("obj", type(v).__name__)


def close(a, b, rtol=1e-8):
    """structural comparison with relative tolerance on floats"""
    if type(a) != type(b):
        return False
    if isinstance(a, tuple):
        if len(a) != len(b):
            return False
        if len(a) >= 1 and a[0] in ("a", "ac") and isinstance(a[-1], tuple) and len(a) == 3:
            if a[1] != b[1]:
                return False
            x, y = np.array(a[2]), np.array(b[2])
            sc = 1.0 + float(np.max(np.abs(y))) if y.size else 1.0
            return bool(np.all(np.abs(x - y) <= rtol * sc))
        return all(close(x, y, rtol) for x, y in zip(a, b))
    if isinstance(a, float):
        return abs(a - b) <= rtol * (1 + abs(b))
    return a == b


def call(fn):
    try:
        return fn()
    except Exception as exc:   # raising is an observable outcome
        return exc


# ------------------------------------------------------------------ model: GenericOrbit
X0 = [0.8234, 0.0, 0.0325, 0.0, 0.1422, 0.0]


class OrbitModel:
    name = "generic_orbit"
    OPS = ["P_a", "P_b", "G50", "G100", "Gfix", "R_mono", "R_traj", "R_stab", "SAVELOAD"]
    MUTATORS = {"P_a", "P_b", "G50", "G100", "Gfix", "SAVELOAD"}

    def fresh(self, logical):
        system, L1 = _shared()
        orb = _L["GenericOrbit"](L1, initial_state=np.array(logical["x0"], dtype=float))
        orb.period = logical["period"]
        if logical["prop"] is not None:
            st, me, od = logical["prop"]
            orb.propagate(steps=st, method=me, order=od)
        return orb

    def initial(self):
        return {"x0": list(X0), "period": 2.0, "prop": None}

    def apply(self, obj, op, logical):
        """returns (object after op, returned value, new logical state)"""
        lg = dict(logical)
        if op in ("P_a", "P_b"):
            p = 2.0 if op == "P_a" else 3.1
            obj.period = p
            if p != logical["period"]:
                lg["prop"] = None
            lg["period"] = p
            return obj, None, lg
        if op in ("G50", "G100", "Gfix"):
            st, me, od = {"G50": (50, "adaptive", 8), "G100": (100, "adaptive", 8), "Gfix": (50, "fixed", 4)}[op]
            r = call(lambda: obj.propagate(steps=st, method=me, order=od))
            lg["prop"] = (st, me, od)
            val = r if isinstance(r, Exception) else (np.asarray(r.states).shape, np.asarray(r.states)[-1], float(np.asarray(r.times)[-1]))
            return obj, val, lg
        if op == "R_mono":
            return obj, call(lambda: np.asarray(obj.monodromy)), lg
        if op == "R_traj":
            r = call(lambda: obj.trajectory)
            return obj, r if isinstance(r, Exception) else (np.asarray(r.states).shape, np.asarray(r.states)[-1], float(np.asarray(r.times)[-1])), lg
        if op == "R_stab":
            r = call(lambda: obj.stability_indices)
            return obj, r if isinstance(r, Exception) else np.sort_complex(np.asarray([complex(x) for x in np.ravel(r)])), lg
        if op == "SAVELOAD":
            path = os.path.join(_L["tmp"], "orbit_%d.pkl" % os.getpid())
            obj.save(path)
            new = type(obj).load(path)
            return new, None, lg
        raise KeyError(op)

    def observers(self, obj, cheap=False):
        out = {}
        out["period"] = call(lambda: obj.period)
        out["initial_state"] = call(lambda: np.asarray(obj.initial_state))
        r = call(lambda: obj.trajectory)
        out["trajectory"] = r if isinstance(r, Exception) else (np.asarray(r.states).shape, np.asarray(r.states)[-1], float(np.asarray(r.times)[-1]))
        out["energy"] = call(lambda: float(obj.energy))
        out["jacobi"] = call(lambda: float(obj.jacobi))
        out["family"] = call(lambda: str(obj.family))
        if cheap:
            return out
        out["monodromy"] = call(lambda: np.asarray(obj.monodromy))
        r = call(lambda: obj.eigenvalues)
        out["eigenvalues"] = r if isinstance(r, Exception) else tuple(np.sort_complex(np.asarray([complex(x) for x in np.ravel(v)])) if v is not None else None for v in (r if isinstance(r, (tuple, list)) else (r,)))
        return out


# ------------------------------------------------------------------ model: CenterManifold
PCM = [0.01, 0.02, -0.015, 0.01]
XCM = [0.0, 0.03, -0.02, 0.0, 0.01, 0.025]


class CMModel:
    name = "center_manifold"
    OPS = ["D3", "D4", "H3", "H4", "COMPUTE", "TOSYN", "SAVELOAD"]
    MUTATORS = {"D3", "D4", "SAVELOAD"}

    def fresh(self, logical):
        system, L1 = _shared()
        return _L["CM"](L1, logical["degree"])

    def initial(self):
        return {"degree": 3}

    def _hval(self, H):
        return complex(H(np.array(XCM))).real

    def apply(self, obj, op, logical):
        lg = dict(logical)
        if op in ("D3", "D4"):
            d = 3 if op == "D3" else 4
            obj.degree = d
            lg["degree"] = d
            return obj, None, lg
        if op in ("H3", "H4"):
            d = 3 if op == "H3" else 4
            r = call(lambda: obj.hamiltonian(d))
            return obj, r if isinstance(r, Exception) else (int(r.degree), self._hval(r)), lg
        if op == "COMPUTE":
            r = call(lambda: obj.compute())
            return obj, r if isinstance(r, Exception) else (int(r.degree), self._hval(r)), lg
        if op == "TOSYN":
            return obj, call(lambda: np.asarray(obj.to_synodic(np.array(PCM)))), lg
        if op == "SAVELOAD":
            path = os.path.join(_L["tmp"], "cm_%d.pkl" % os.getpid())
            obj.save(path)
            return type(obj).load(path), None, lg
        raise KeyError(op)

    def observers(self, obj):
        out = {}
        out["degree"] = call(lambda: int(obj.degree))
        r = call(lambda: obj.compute())
        out["compute"] = r if isinstance(r, Exception) else (int(r.degree), self._hval(r))
        out["to_synodic"] = call(lambda: np.asarray(obj.to_synodic(np.array(PCM))))
        out["degree_after_reads"] = call(lambda: int(obj.degree))
        return out


# ------------------------------------------------------------------ model: halo orbit + correction options
class HaloModel:
    name = "halo_correct"
    OPS = ["C_default", "C_loose", "C_fewiter", "P_scale", "G50"]
    MUTATORS = {"C_default", "C_loose", "C_fewiter", "P_scale", "G50"}

    def _opts(self, orb, kind):
        import dataclasses
        o = orb.correction_options
        if kind == "C_default":
            return None
        if kind == "C_loose":
            conv = dataclasses.replace(o.base.convergence, tol=1e-5)
        else:
            conv = dataclasses.replace(o.base.convergence, tol=1e-9, max_attempts=40)
        return dataclasses.replace(o, base=dataclasses.replace(o.base, convergence=conv))

    def fresh(self, logical):
        system, L1 = _shared()
        if logical["x0"] is None:
            orb = _L["HaloOrbit"](L1, amplitude_z=0.2, zenith="southern")
        else:
            orb = _L["HaloOrbit"](L1, initial_state=np.array(logical["x0"], dtype=float))
        if logical["period"] is not None:
            orb.period = logical["period"]
        return orb

    def initial(self):
        return {"x0": None, "period": None}

    def apply(self, obj, op, logical):
        lg = dict(logical)
        if op.startswith("C_"):
            opts = self._opts(obj, op)
            r = call(lambda: obj.correct() if opts is None else obj.correct(options=opts))
            if isinstance(r, Exception):
                return obj, r, lg
            lg["x0"] = [float(v) for v in np.asarray(r.x_corrected)]
            lg["period"] = float(2 * r.half_period)
            tol = {"C_default": 1e-12, "C_loose": 1e-5, "C_fewiter": 1e-9}[op]
            val = (bool(r.converged), np.asarray(r.x_corrected), float(r.half_period), bool(r.residual_norm < tol), np.asarray(obj.initial_state), float(obj.period))
            return obj, val, lg
        if op == "P_scale":
            p = obj.period
            if p is None:
                return obj, ("noop",), lg
            obj.period = float(p) * 1.001
            lg["period"] = float(p) * 1.001
            return obj, None, lg
        if op == "G50":
            r = call(lambda: obj.propagate(steps=50))
            return obj, r if isinstance(r, Exception) else (np.asarray(r.states).shape, np.asarray(r.states)[-1]), lg
        raise KeyError(op)

    def observers(self, obj):
        return {"initial_state": call(lambda: np.asarray(obj.initial_state)), "period": call(lambda: obj.period)}


# ------------------------------------------------------------------ model: System / LibrationPoint
Y0A = [0.82, 0.02, 0.05, 0.03, 0.15, -0.02]
Y0B = [0.3, 0.4, 0.1, -0.2, 0.5, 0.15]


class SystemModel:
    name = "system_point"
    OPS = ["PR_a50", "PR_a100", "PR_b50", "PR_a50_back", "CM3", "MODES", "SAVELOAD"]
    MUTATORS = {"SAVELOAD"}

    def fresh(self, logical):
        return _L["System"].from_mu(MU)

    def initial(self):
        return {}

    def apply(self, obj, op, logical):
        lg = dict(logical)
        if op.startswith("PR_"):
            y0 = Y0A if "_a" in op else Y0B
            steps = 100 if "100" in op else 50
            kw = dict(tf=1.0, steps=steps, method="fixed" if "fixed" in op else "adaptive", order=4 if "fixed" in op else 8, forward=-1 if "back" in op else 1)
            r = call(lambda: obj.propagate(np.array(y0), **kw))
            return obj, r if isinstance(r, Exception) else (np.asarray(r.states).shape, np.asarray(r.states)[-1], float(np.asarray(r.times)[-1])), lg
        if op in ("CM3", "CM4"):
            d = 3 if op == "CM3" else 4
            r = call(lambda: obj.get_libration_point(1).get_center_manifold(d))
            return obj, r if isinstance(r, Exception) else (int(r.degree),), lg
        if op == "MODES":
            return obj, call(lambda: tuple(float(v) for v in obj.get_libration_point(2).linear_modes)), lg
        if op == "SAVELOAD":
            path = os.path.join(_L["tmp"], "system_%d.pkl" % os.getpid())
            obj.save(path)
            return type(obj).load(path), None, lg
        raise KeyError(op)

    def observers(self, obj):
        out = {"mu": call(lambda: float(obj.mu))}
        for i in (1, 2, 4):
            out["L%d.position" % i] = call(lambda i=i: np.asarray(obj.get_libration_point(i).position))
            out["L%d.energy" % i] = call(lambda i=i: float(obj.get_libration_point(i).energy))
        out["L1.modes"] = call(lambda: tuple(float(v) for v in obj.get_libration_point(1).linear_modes))
        r = call(lambda: obj.propagate(np.array(Y0A), tf=1.0, steps=50, method="adaptive", order=8, forward=1))
        out["propagate_a50"] = r if isinstance(r, Exception) else (np.asarray(r.states).shape, np.asarray(r.states)[-1])
        return out


class ManifoldModel:
    """Manifold.compute with argument sets that differ in one field: the result must belong to the arguments of the *last* call"""
    name = "manifold"
    OPS = ["C_coarse_small", "C_coarse_big", "C_fine_small", "C_coarse_small_dt", "R_traj"]
    MUTATORS = {"C_coarse_small", "C_coarse_big", "C_fine_small", "C_coarse_small_dt"}
    ARGS = {"C_coarse_small": dict(step=0.5, displacement=1e-6, dt=1e-2), "C_coarse_big": dict(step=0.5, displacement=1e-4, dt=1e-2),
            "C_fine_small": dict(step=0.25, displacement=1e-6, dt=1e-2), "C_coarse_small_dt": dict(step=0.5, displacement=1e-6, dt=1e-3)}

    def _orbit(self):
        if "man_orbit" not in _L:
            system, L1 = _shared()
            orb = _L["HaloOrbit"](L1, amplitude_z=0.2, zenith="southern")
            orb.correct()
            orb.propagate(steps=500)
            _L["man_orbit"] = orb
        return _L["man_orbit"]

    def fresh(self, logical):
        from hiten.system.manifold import Manifold
        man = Manifold(self._orbit(), stable=False, direction="positive")
        if logical["args"] is not None:
            man.compute(integration_fraction=0.05, show_progress=False, **self.ARGS[logical["args"]])
        return man

    def initial(self):
        return {"args": None}

    def _summ(self, man):
        tr = man.trajectories
        if not tr:
            return ("none",)
        seeds = np.array([np.asarray(t.states)[0] for t in tr])
        first = np.asarray(tr[0].states)
        return (len(tr), seeds[0], seeds[-1], first.shape, first[-1], float(np.asarray(tr[0].times)[-1]))

    def apply(self, obj, op, logical):
        lg = dict(logical)
        if op.startswith("C_"):
            r = call(lambda: obj.compute(integration_fraction=0.05, show_progress=False, **self.ARGS[op]))
            lg["args"] = op
            return obj, r if isinstance(r, Exception) else self._summ(obj), lg
        if op == "R_traj":
            return obj, call(lambda: self._summ(obj)), lg
        raise KeyError(op)

    def observers(self, obj):
        return {"trajectories": call(lambda: self._summ(obj))}


MODELS = {m.name: m for m in (OrbitModel(), CMModel(), HaloModel(), SystemModel(), ManifoldModel())}


# ------------------------------------------------------------------ explorer
def run_history(model, hist):
    """returns (violations, transitions, twin_replays, canonical state)"""
    viol = []
    logical = model.initial()
    obj = model.fresh(logical)
    transitions = 0
    twins = 0
    for i, op in enumerate(hist):
        twin = model.fresh(logical)
        twins += 1
        obj, got, lg_obj = model.apply(obj, op, logical)
        _, exp, lg_twin = model.apply(twin, op, logical)
        transitions += 1
        ng, ne = norm(got), norm(exp)
        if not close(ng, ne):
            viol.append(violation("%s/step/%s" % (model.name, op), "history %s: operation %d (%s) returned %s on the long-lived object, a fresh object in the same logical state %s returns %s" % (
                list(hist), i + 1, op, _short(ng), _short_state(logical), _short(ne)), _short(ng), _short(ne), ("history", {"model": model.name, "history": list(hist)})))
        logical = lg_twin     # the logical state follows the fresh computation
    twin = model.fresh(logical)
    twins += 1
    if getattr(model, "name", "") == "generic_orbit" and hist and hist[-1] == "SAVELOAD":
        og, oe = model.observers(obj, cheap=True), model.observers(twin, cheap=True)
    else:
        og, oe = model.observers(obj), model.observers(twin)
    canon = []
    for k in og:
        ng, ne = norm(og[k]), norm(oe[k])
        canon.append((k, ne))
        if not close(ng, ne):
            viol.append(violation("%s/observer/%s" % (model.name, k), "after history %s: %s = %s, a fresh object in the same logical state %s gives %s" % (
                list(hist), k, _short(ng), _short_state(logical), _short(ne)), _short(ng), _short(ne), ("history", {"model": model.name, "history": list(hist)})))
    return viol, transitions, twins, (tuple(sorted((k, str(v)) for k, v in logical.items())), tuple(canon))


def _short(v, n=160):
    s = str(v)
    return s if len(s) <= n else s[:n] + "..."


def _short_state(lg):
    return {k: (v if not isinstance(v, list) else [round(x, 6) for x in v]) for k, v in lg.items()}


def k_histories(params):
    model = MODELS[params["model"]]
    depth = params["depth"]
    first = params["first"]
    viol = {}
    n = 0
    nontriv = 0
    transitions = 0
    twins = 0
    states = set()
    for d in range(1, depth + 1):
        for rest in itertools.product(model.OPS, repeat=d - 1):
            hist = (first,) + rest
            if "SAVELOAD" in hist[:-1]:
                continue   # a reloaded object owns a brand-new System (full re-JIT): save/load is explored as the final operation of every shorter history
            vs, tr, tw, canon = run_history(model, hist)
            n += 1
            transitions += tr
            twins += tw
            states.add(hash(canon))
            # non-trivial: a mutation happens after some earlier operation (i.e. a cache could be stale)
            if any(op in model.MUTATORS for op in hist[1:]):
                nontriv += 1
            for v in vs:
                viol.setdefault(v["key"], v)
    return res(evals=n, nontrivial=nontriv, viol=list(viol.values()), stats={"histories": n, "operations_executed": transitions, "twin_replays": twins, "canonical_states": len(states)},
               sample={"model": model.name, "first_op": first, "depth": depth, "histories": n, "distinct_states": len(states)})


def k_history(params):
    model = MODELS[params["model"]]
    vs, tr, tw, canon = run_history(model, tuple(params["history"]))
    return res(viol=vs, nontrivial=1)


KINDS = {"histories": k_histories, "history": k_history}


def cases(tier, seed):
    out = []
    depths = {"generic_orbit": 3, "center_manifold": 3, "halo_correct": 3, "system_point": 2, "manifold": 2}
    if tier != "quick":
        depths = {"generic_orbit": 4, "center_manifold": 4, "halo_correct": 4, "system_point": 3, "manifold": 3}
    for name, m in MODELS.items():
        for op in m.OPS:
            out.append(("histories", {"model": name, "depth": depths[name], "first": op}))
    return out


def finalize(cov, results, tier, case_list):
    cov["states"] = int(cov.get("canonical_states", 0))
    cov["transitions"] = int(cov.get("operations_executed", 0))
    cov["traces_validated_against_impl"] = int(cov.get("twin_replays", 0))
    cov["max_depth"] = max(p["depth"] for _, p in case_list)
    cov["explanation"] = "states = distinct canonical (logical state, observer outputs) tuples reached; transitions = operations executed on long-lived real objects; traces validated = fresh-twin replays of single operations / observer sets"
    return []
