"""C18 - Hamiltonian-form conversions and coordinate changes run and are mutually inverse.

All registry edges are enumerated at run time from the conversion registry; for every edge the
conversion is executed on the pipeline Hamiltonian of its source form, edges registered in both
directions must compose to the identity, and every polynomial substitution must agree with the
same change applied to coordinates (on pipeline Hamiltonians and on arbitrary polynomials).
"""
import itertools
import math

import numpy as np

from engine.core import res, violation, seed_offsets
from engine import refpoly as R

ID = "C18"
LEVEL = "exploration"
WORKERS = {"quick": 8, "thorough": 12}
RULE = ("all ordered pairs of form requests on one freshly built pipeline, all forms compared afterwards with a canonically asked pipeline; all edges of the conversion registry (enumerated at run time) x {L1,L2 (+L4 for substitutions)} x mu x degree: edge executes, both-direction edges compose to identity, "
        "substituted polynomial at x equals the original at the transformed x on a coordinate lattice; arbitrary polynomials = every monomial of degree <= 3 alone + dense fills; "
        "point maps composed with their inverses on the lattice; non-trivial = edge / substitution evaluated on a non-zero polynomial; distinct = (point, mu, degree, edge|substitution, polynomial)")
ASSUMPTIONS = [
    "round trips compared coefficient-wise with tolerance 1e-9 relative to the largest coefficient (conversions clean coefficients below 1e-14..1e-12)",
    "point-wise agreement of substituted polynomials at 1e-10 relative on a lattice of radius 0.3",
]

_L = {}
# form names of the conversion registry (k_request_history checks at run time that this list is the registry's)
FORMS = ['center_manifold_complex', 'center_manifold_real', 'complex_full_normal', 'complex_modal', 'complex_partial_normal', 'physical', 'real_full_normal', 'real_modal', 'real_partial_normal']


def worker_init():
    if _L:
        return
    from hiten.system.base import System
    from hiten.system.center import CenterManifold
    from hiten.algorithms.hamiltonian import transforms as tr
    from hiten.algorithms.polynomial import base as pb
    from hiten.algorithms.polynomial import operations as ops

    _L.update(System=System, CM=CenterManifold, tr=tr, pb=pb, ops=ops)


def _coeff_diff(a, b):
    m = 0.0
    sc = 1e-300
    for x, y in zip(a, b):
        x = np.asarray(x); y = np.asarray(y)
        if x.shape != y.shape:
            return float("inf"), 1.0
        if x.size:
            m = max(m, float(np.max(np.abs(x - y))))
            sc = max(sc, float(np.max(np.abs(y))))
    return m, sc


def _lattice(off, complex_pts=False):
    pts = []
    for i in range(6):
        for sg in (1, -1):
            v = np.array([0.05 * ((j * 3 + i) % 5 - 2) + off for j in range(6)], dtype=float)
            v[i] = 0.3 * sg
            pts.append(v.astype(np.complex128))
    pts.append(np.array([0.2, -0.3, 0.25, 0.1, 0.3, -0.2], dtype=np.complex128))
    if complex_pts:
        pts.append(np.array([0.1 + 0.2j, -0.3j, 0.25, 0.1 - 0.1j, 0.3 + 0.05j, -0.2], dtype=np.complex128))
        pts.append(np.array([0.3j, 0.1, -0.2 + 0.1j, 0.05, -0.15j, 0.25 + 0.25j], dtype=np.complex128))
    return pts


def k_edges(params):
    ops = _L["ops"]
    system = _L["System"].from_mu(params["mu"])
    pt = system.get_libration_point(params["point"])
    deg = params["degree"]
    cm = _L["CM"](pt, deg)
    pipe = cm.dynamics.pipeline
    reg = pipe.registry._CONVERSION_REGISTRY
    edges = sorted(reg.keys())
    viol = {}
    n = 0
    nontriv = 0
    tag = "mu=%g L%d degree=%d" % (params["mu"], params["point"], deg)
    hams = {}
    for form in sorted({s for s, _ in edges} | {d for _, d in edges}):
        try:
            hams[form] = pipe.get_hamiltonian(form)
        except Exception as exc:
            viol.setdefault("pipeline/%s" % form, violation("pipeline/%s" % form, "pipeline cannot produce form %s: %s: %s [%s]" % (form, type(exc).__name__, str(exc)[:120], tag)))
    results = {}
    for (src, dst) in edges:
        if src not in hams:
            continue
        n += 1
        try:
            out = hams[src].to_state(dst, point=pt)
            if isinstance(out, tuple):
                out = out[0]
            results[(src, dst)] = out
            nontriv += 1
        except Exception as exc:
            key = "edge_raises/%s->%s" % (src, dst)
            viol.setdefault(key, violation(key, "conversion %s -> %s cannot be executed: %s: %s [%s]" % (src, dst, type(exc).__name__, str(exc)[:160], tag)))
            continue
        # agreement with the pipeline's own result for that form
        if dst in hams:
            d, sc = _coeff_diff(out.poly_H, hams[dst].poly_H)
            if d > 1e-9 * sc:
                key = "edge_vs_pipeline/%s->%s" % (src, dst)
                viol.setdefault(key, violation(key, "converting %s -> %s directly differs from the pipeline's %s by %.3e (scale %.3e) [%s]" % (src, dst, dst, d, sc, tag), d, 0.0))
    # both-direction edges compose to the identity
    for (src, dst) in edges:
        if (dst, src) in reg and (src, dst) in results:
            n += 1
            try:
                back = results[(src, dst)].to_state(src, point=pt)
                if isinstance(back, tuple):
                    back = back[0]
            except Exception as exc:
                key = "edge_raises/%s->%s" % (dst, src)
                viol.setdefault(key, violation(key, "conversion %s -> %s cannot be executed on the result of the opposite edge: %s: %s [%s]" % (dst, src, type(exc).__name__, str(exc)[:160], tag)))
                continue
            d, sc = _coeff_diff(back.poly_H, hams[src].poly_H)
            if d > 1e-9 * sc:
                key = "roundtrip/%s<->%s" % (src, dst)
                viol.setdefault(key, violation(key, "%s -> %s -> %s does not return the original coefficients: max diff %.3e (scale %.3e) [%s]" % (src, dst, src, d, sc, tag), d, 0.0))
    return res(evals=n, nontrivial=nontriv, viol=list(viol.values()), stats={"registry_edges": len(edges)},
               sample={"tag": tag, "edges": ["%s->%s" % e for e in edges], "executed": nontriv})


def _mk_polys(deg, psi, clmo, enc, pipe_polys):
    """arbitrary polynomials: each monomial of degree <= 3 alone, dense fills, plus pipeline Hamiltonians"""
    from numba.typed import List
    pb = _L["pb"]
    out = []

    def from_dict(p):
        lst = List()
        for d in range(deg + 1):
            a = np.zeros(int(psi[6, d]), dtype=np.complex128)
            for k, v in p.items():
                if sum(k) == d:
                    a[pb._encode_multiindex(np.array(k, dtype=np.int64), d, enc)] = v
            lst.append(a)
        return lst

    coefs = [2.0, -3.0, 1.0 + 2.0j, 0.5j]
    i = 0
    for d in range(0, 4):
        if d > deg:
            break
        for k in R.monomials(d):
            out.append(("x^%s" % (k,), from_dict({k: coefs[i % 4]})))
            i += 1
    dense = {}
    for d in range(0, min(deg, 4) + 1):
        for j, k in enumerate(R.monomials(d)):
            dense[k] = (1.0 if j % 2 == 0 else -1.0) * (1 + 0.5j if j % 3 == 0 else 1.0) / (1 + d)
    out.append(("dense_alternating", from_dict(dense)))
    out.append(("all_ones", from_dict({k: 1.0 for d in range(0, min(deg, 3) + 1) for k in R.monomials(d)})))
    for nm, ph in pipe_polys:
        out.append((nm, ph))
    return out


def k_subst(params):
    tr, pb, ops = _L["tr"], _L["pb"], _L["ops"]
    system = _L["System"].from_mu(params["mu"])
    pt = system.get_libration_point(params["point"])
    deg = params["degree"]
    collinear = params["point"] <= 3
    mix = (1, 2) if collinear else (0, 1, 2)
    psi, clmo = pb._init_index_tables(deg)
    enc = pb._create_encode_dict_from_clmo(clmo)
    tag = "mu=%g L%d degree=%d" % (params["mu"], params["point"], deg)
    viol = {}
    n = 0
    pipe_polys = []
    if collinear and params.get("with_pipeline", True):
        cm = _L["CM"](pt, deg)
        pipe = cm.dynamics.pipeline
        for form in ("physical", "real_modal", "complex_modal"):
            pipe_polys.append(("pipeline:" + form, pipe.get_hamiltonian(form).poly_H))
    polys = _mk_polys(deg, psi, clmo, enc, pipe_polys)
    pts = _lattice(params["off"], complex_pts=True)

    def ev(poly, x):
        return complex(ops._polynomial_evaluate(poly, np.asarray(x, dtype=np.complex128), clmo))

    C, Cinv = pt.normal_form_transform
    subs = {
        "_substitute_complex": (lambda p: tr._substitute_complex(p, deg, psi, clmo, tol=1e-14, mix_pairs=mix), lambda z: tr._solve_real(z, mix_pairs=mix)),
        "_substitute_real": (lambda p: tr._substitute_real(p, deg, psi, clmo, tol=1e-14, mix_pairs=mix), lambda x: tr._solve_complex(x, mix_pairs=mix)),
        "_polylocal2realmodal": (lambda p: tr._polylocal2realmodal(pt, p, deg, psi, clmo, tol=1e-14), lambda m: tr._coordrealmodal2local(pt, m)),
        "_polyrealmodal2local": (lambda p: tr._polyrealmodal2local(pt, p, deg, psi, clmo, tol=1e-14), lambda l: tr._coordlocal2realmodal(pt, l)),
    }
    inverse_of = {"_substitute_complex": "_substitute_real", "_substitute_real": "_substitute_complex",
                  "_polylocal2realmodal": "_polyrealmodal2local", "_polyrealmodal2local": "_polylocal2realmodal"}
    for nm, poly in polys:
        for sname, (T, Tc) in subs.items():
            n += 1
            try:
                new = T(poly)
            except Exception as exc:
                viol.setdefault("subst_raises/" + sname, violation("subst_raises/" + sname, "%s raised %s: %s on %s [%s]" % (sname, type(exc).__name__, str(exc)[:120], nm, tag)))
                continue
            for x in pts:
                a = ev(new, x)
                b = ev(poly, Tc(x))
                if abs(a - b) > 1e-10 * (1 + abs(b)):
                    key = "subst_pointwise/" + sname
                    viol.setdefault(key, violation(key, "%s(%s) at x differs from the original polynomial at the transformed x: %s vs %s (x=%s) [%s]" % (sname, nm, a, b, np.round(x, 3).tolist(), tag), [a.real, a.imag], [b.real, b.imag]))
                    break
            # substitution followed by its inverse
            back = subs[inverse_of[sname]][0](new)
            d, sc = _coeff_diff(back, poly)
            if d > 1e-9 * max(sc, 1e-12):
                key = "subst_roundtrip/" + sname
                viol.setdefault(key, violation(key, "%s followed by %s does not return the coefficients of %s: max diff %.3e [%s]" % (sname, inverse_of[sname], nm, d, tag), d, 0.0))
    # point maps
    M, Minv = tr._M(mix), tr._M_inv(mix)
    if float(np.max(np.abs(M @ Minv - np.eye(6)))) > 1e-13:
        viol.setdefault("point_maps/M_Minv", violation("point_maps/M_Minv", "_M @ _M_inv != I [%s]" % tag))
    if float(np.max(np.abs(np.asarray(C) @ np.asarray(Cinv) - np.eye(6)))) > 1e-9 * (1 + float(np.max(np.abs(C))) ** 2):
        viol.setdefault("point_maps/C_Cinv", violation("point_maps/C_Cinv", "C @ Cinv != I [%s]" % tag))
    for x in pts:
        n += 1
        pairs = [("solve_complex.solve_real", tr._solve_complex(tr._solve_real(x, mix_pairs=mix), mix_pairs=mix)),
                 ("solve_real.solve_complex", tr._solve_real(tr._solve_complex(x, mix_pairs=mix), mix_pairs=mix)),
                 ("coordlocal2realmodal.coordrealmodal2local", tr._coordlocal2realmodal(pt, tr._coordrealmodal2local(pt, x))),
                 ("coordrealmodal2local.coordlocal2realmodal", tr._coordrealmodal2local(pt, tr._coordlocal2realmodal(pt, x)))]
        if np.max(np.abs(x.imag)) == 0:
            if collinear:
                pairs.append(("synodic2local.local2synodic", tr._synodic2local_collinear(pt, tr._local2synodic_collinear(pt, x))))
                pairs.append(("local2synodic.synodic2local", tr._local2synodic_collinear(pt, tr._synodic2local_collinear(pt, x + np.array([0.8, 0, 0, 0, 0, 0])))- np.array([0.8, 0, 0, 0, 0, 0])))
            else:
                pairs.append(("synodic2local.local2synodic", tr._synodic2local_triangular(pt, tr._local2synodic_triangular(pt, x))))
        for nm, y in pairs:
            if float(np.max(np.abs(np.asarray(y) - x))) > 1e-12 * (1 + float(np.max(np.abs(C))) ** 2):
                viol.setdefault("point_maps/" + nm, violation("point_maps/" + nm, "%s is not the identity at %s (diff %.3e) [%s]" % (nm, np.round(x, 3).tolist(), float(np.max(np.abs(np.asarray(y) - x))), tag), y, x))
    return res(evals=n, nontrivial=n, viol=list(viol.values()), sample={"tag": tag, "polynomials": len(polys), "substitutions": list(subs)})


def k_edge_arbitrary(params):
    """both-direction edges on arbitrary polynomials (not only on what the pipeline produces): src -> dst -> src returns the coefficients.
    Centre-manifold forms get polynomials in the centre variables only (that is their domain)."""
    from hiten.system.hamiltonian import Hamiltonian
    from numba.typed import List
    pb = _L["pb"]
    system = _L["System"].from_mu(params["mu"])
    pt = system.get_libration_point(params["point"])
    deg = params["degree"]
    pipe = _L["CM"](pt, deg).dynamics.pipeline
    reg = pipe.registry._CONVERSION_REGISTRY
    psi, clmo = pb._init_index_tables(deg)
    enc = pb._create_encode_dict_from_clmo(clmo)
    polys = [(nm, ph) for nm, ph in _mk_polys(deg, psi, clmo, enc, []) if nm in ("dense_alternating", "all_ones") or nm.startswith("x^(")][::7]
    polys += [(nm, ph) for nm, ph in _mk_polys(deg, psi, clmo, enc, []) if nm in ("dense_alternating", "all_ones")]
    viol = {}
    n = nt = 0
    tag0 = "mu=%g L%d degree=%d" % (params["mu"], params["point"], deg)
    for (src, dst) in sorted(reg.keys()):
        if (dst, src) not in reg:
            continue
        cm_only = src.startswith("center_manifold") or dst.startswith("center_manifold")
        for nm, ph in polys:
            lst = List()
            for d in range(deg + 1):
                a = np.array(ph[d], dtype=np.complex128)
                if d < 2:
                    a[:] = 0.0      # Hamiltonian forms start at degree 2
                if cm_only:
                    for pos in np.nonzero(a)[0]:
                        k = pb._decode_multiindex(int(pos), d, clmo)
                        if k[0] or k[3]:
                            a[pos] = 0.0
                lst.append(a)
            if not any(np.any(a != 0) for a in lst):
                continue
            n += 1
            try:
                H = Hamiltonian(lst, deg, 3, name=src)
                mid = H.to_state(dst, point=pt)
                mid = mid[0] if isinstance(mid, tuple) else mid
                back = mid.to_state(src, point=pt)
                back = back[0] if isinstance(back, tuple) else back
            except Exception as exc:
                key = "arbitrary/raises/%s<->%s" % (src, dst)
                viol.setdefault(key, violation(key, "%s -> %s -> %s on the polynomial %s raises %s: %s [%s]" % (src, dst, src, nm, type(exc).__name__, str(exc)[:140], tag0)))
                continue
            nt += 1
            d_, sc = _coeff_diff(back.poly_H, lst)
            if d_ > 1e-10 * sc:
                key = "arbitrary/roundtrip/%s<->%s" % (src, dst)
                viol.setdefault(key, violation(key, "%s -> %s -> %s does not return the coefficients of the polynomial %s: max diff %.3e (scale %.3e) [%s]" % (src, dst, src, nm, d_, sc, tag0), d_, 0.0))
    # a conversion called once with a custom tolerance must not change what later default conversions on the same edge do: polynomial with
    # coefficients spread over 1e-6..1, round trip before and after a tol=1e-3 call on that edge
    for (src, dst) in sorted(reg.keys()):
        if (dst, src) not in reg:
            continue
        cm_only = src.startswith("center_manifold") or dst.startswith("center_manifold")
        lst = List()
        for d in range(deg + 1):
            a = np.zeros(int(psi[6, d]), dtype=np.complex128)
            if d >= 2:
                for pos in range(a.size):
                    k = pb._decode_multiindex(int(pos), d, clmo)
                    if cm_only and (k[0] or k[3]):
                        continue
                    a[pos] = (1.0 if pos % 2 else -1.0) * 10.0 ** (-(pos % 7))
            lst.append(a)

        def rt():
            H = Hamiltonian(lst, deg, 3, name=src)
            mid = H.to_state(dst, point=pt)
            mid = mid[0] if isinstance(mid, tuple) else mid
            back = mid.to_state(src, point=pt)
            back = back[0] if isinstance(back, tuple) else back
            return _coeff_diff(back.poly_H, lst)
        try:
            d0, sc = rt()
            for a_, b_ in ((src, dst), (dst, src)):
                try:
                    Hc = Hamiltonian(lst, deg, 3, name=a_)
                    Hc.to_state(b_, point=pt, tol=1e-3)
                except Exception:
                    pass
            d1, sc = rt()
        except Exception as exc:
            key = "arbitrary/raises/%s<->%s" % (src, dst)
            viol.setdefault(key, violation(key, "%s <-> %s on the graded polynomial raises %s: %s [%s]" % (src, dst, type(exc).__name__, str(exc)[:140], tag0)))
            continue
        n += 1
        nt += 1
        if d1 > 1e-10 * sc or d0 > 1e-10 * sc:
            key = "arbitrary/after_custom_tolerance/%s<->%s" % (src, dst)
            viol.setdefault(key, violation(key, "%s -> %s -> %s with default options: max coefficient error %.3e before and %.3e after one call on that edge with tol=1e-3 (coefficients of the polynomial range over 1e-6..1) [%s]" % (
                src, dst, src, d0, d1, tag0), d1, d0))
    return res(evals=n, nontrivial=nt, viol=list(viol.values()), sample={"tag": tag0, "roundtrips": nt})


def k_request_history(params):
    """every ordered pair of form requests (first, b) on a freshly built pipeline; afterwards every form of that pipeline must equal the form
    obtained from a pipeline that was asked in canonical order (the one kinds `edges` / `subst` verify)"""
    system = _L["System"].from_mu(params["mu"])
    pt = system.get_libration_point(params["point"])
    deg = params["degree"]
    ref_pipe = _L["CM"](pt, deg).dynamics.pipeline
    reg = ref_pipe.registry._CONVERSION_REGISTRY
    forms = sorted({s for s, _ in reg.keys()} | {d for _, d in reg.keys()})
    if forms != sorted(FORMS):
        raise RuntimeError("the conversion registry's forms %s are not the list the case generator uses" % forms)
    ref = {}
    for f in forms:
        try:
            ref[f] = [np.array(a) for a in ref_pipe.get_hamiltonian(f).poly_H]
        except Exception:
            pass
    viol = {}
    n = nt = 0
    first = params["first"]
    if first not in ref:
        return res(evals=1, nontrivial=0, sample={"first": first, "outcome": "form not produced by the pipeline"})
    for b in [None] + [f for f in forms if f in ref]:
        seq = [first] + ([b] if b is not None else [])
        system2 = _L["System"].from_mu(params["mu"])
        pipe = _L["CM"](system2.get_libration_point(params["point"]), deg).dynamics.pipeline
        tag = "mu=%g L%d degree=%d, forms requested in the order %s on one pipeline" % (params["mu"], params["point"], deg, seq)
        try:
            for f in seq:
                pipe.get_hamiltonian(f)
            got = {f: pipe.get_hamiltonian(f).poly_H for f in ref}
        except Exception as exc:
            viol.setdefault("history/raises", violation("history/raises", "%s: %s [%s]" % (type(exc).__name__, str(exc)[:140], tag), None, None, ("request_history", params)))
            continue
        for f in ref:
            n += 1
            nt += 1
            d, sc = _coeff_diff(got[f], ref[f])
            if d > 1e-12 * sc:
                key = "history/form_depends_on_request_order/%s" % f
                viol.setdefault(key, violation(key, "form %s differs by %.3e (scale %.3e) from the same form of a pipeline asked in canonical order [%s]" % (f, d, sc, tag), d, 0.0, ("request_history", params)))
    return res(evals=n, nontrivial=nt, viol=list(viol.values()), sample={"first": first, "forms": list(ref), "histories": len(ref) + 1})


KINDS = {"edge_arbitrary": k_edge_arbitrary, "edges": k_edges, "subst": k_subst, "request_history": k_request_history}


def cases(tier, seed):
    o = seed_offsets(seed, 1, 0.04)
    out = []
    mus = [0.01215, 9.5e-4]
    degs = [4, 6] if tier == "quick" else [2, 4, 6, 8]
    for mu in mus:
        for Ln in (1, 2):
            for deg in degs:
                out.append(("edges", {"mu": mu, "point": Ln, "degree": deg}))
        for Ln in (1, 2, 4):
            for deg in ([3, 4] if tier == "quick" else [2, 3, 4, 6]):
                out.append(("subst", {"mu": mu, "point": Ln, "degree": deg, "off": o[0], "with_pipeline": True}))
    for mu in mus:
        for Ln in (1, 2):
            out.append(("edge_arbitrary", {"mu": mu, "point": Ln, "degree": 4}))
    # request histories: all ordered pairs of forms on one pipeline (the form names are enumerated at run time; unknown ones are skipped and counted)
    for first in FORMS:
        out.append(("request_history", {"mu": 0.01215, "point": 1, "degree": 4, "first": first}))
        if tier != "quick":
            out.append(("request_history", {"mu": 9.5e-4, "point": 2, "degree": 6, "first": first}))
    return out
