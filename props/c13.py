"""C13 - continuation loop: bounds, predictions, target interval, retries, counters.

devx exploration directly on _PredictorCorrectorContinuationBackend.run with a harness-owned
corrector whose answers (accept / reject / raise) are enumerated exhaustively: every outcome
sequence is followed to the end of the run (the run always terminates: member limit or retry
limit), so the explored tree is the complete set of behaviours of the loop for each
configuration. Oracle: a reference model of the loop written from the property text only.
"""
import itertools
import math

import numpy as np

from engine.core import res, violation, seed_offsets

ID = "C13"
LEVEL = "model_checking"
WORKERS = {"quick": 12, "thorough": 16}
RULE = ("for each configuration (stepper x step vector x target interval x (max_members,max_retries) x (step_min,step_max) x shrink policy) the complete tree of corrector "
        "outcome sequences over {accept, reject, raise} is explored by DFS on the real backend (a branch ends when the run returns); states = distinct "
        "(config, family length, step vector, attempt) loop states, transitions = corrector calls; every complete run is compared with the reference model; "
        "non-trivial = run with at least one reject/raise or a member outside the target")
ASSUMPTIONS = [
    "accepted_count counts the seed (== number of family members); rejected_count counts reject and raise outcomes; iterations counts corrector calls",
    "'gives up after the configured number of retries' = the run stops when max_retries_per_step + 1 consecutive corrections of one step have failed",
    "initial steps are chosen inside [step_min, step_max]; shrink policy that raises falls back to halving",
]

ALPH = ("A", "R", "X")


def worker_init():
    pass


# ------------------------------------------------------------------ harness-owned pieces
def _curve(p):
    # accepted member for parameter vector p: second/third components follow a curve so that secants turn
    return np.array([p[0], p[1] if len(p) > 1 else 0.5 * p[0] ** 2 + 0.3 * p[0], math.sin(3 * p[0])])


class Corrector:
    def __init__(self, outcomes, npar):
        self.outcomes = list(outcomes)
        self.calls = []
        self.npar = npar

    def __call__(self, prediction):
        i = len(self.calls)
        o = self.outcomes[i] if i < len(self.outcomes) else "A"
        self.calls.append((np.array(prediction, dtype=float), o))
        if o == "X":
            raise RuntimeError("injected corrector failure")
        if o == "R":
            return np.array(prediction, dtype=float), 1.0, False
        p = np.asarray(prediction, dtype=float)[: self.npar]
        return self._corrected(prediction), 1e-13, True, {"period": 1.0 + p[0]}

    def _corrected(self, prediction):
        pr = np.asarray(prediction, dtype=float)
        c = _curve(pr[: self.npar]) if self.npar == 1 else np.array([pr[0], pr[1], math.sin(3 * pr[0])])
        return c


def _shrink(name):
    if name == "none":
        return None
    if name == "quarter":
        return lambda s: s * 0.25
    if name == "raising":
        def f(s):
            raise ValueError("bad policy")
        return f
    raise KeyError(name)


def _mk_request(cfg, corr):
    from hiten.algorithms.continuation.types import ContinuationBackendRequest

    npar = len(cfg["step"])
    idx = list(range(npar))

    def predictor(last, step):
        last = np.asarray(last, dtype=float).copy()
        for i, d in zip(idx, np.asarray(step, dtype=float)):
            last[i] += d
        return last

    repr_fn = lambda v: np.asarray(v, dtype=float)
    stepper_fn = repr_fn if cfg["stepper"] == "secant" else predictor
    seed = _curve(np.zeros(npar)) if npar == 1 else np.array([0.0, 0.0, 0.0])
    return ContinuationBackendRequest(
        seed_repr=seed, stepper_fn=stepper_fn, predictor_fn=predictor, parameter_getter=lambda v: np.asarray(v, dtype=float)[idx],
        corrector=corr, step=np.array(cfg["step"], dtype=float), target=np.array(cfg["target"], dtype=float),
        max_members=cfg["max_members"], max_retries_per_step=cfg["max_retries"], shrink_policy=_shrink(cfg["shrink"]),
        step_min=cfg["step_min"], step_max=cfg["step_max"], metadata={}), seed


def _run_impl(cfg, outcomes):
    from hiten.algorithms.continuation.backends.pc import _PredictorCorrectorContinuationBackend
    from hiten.algorithms.continuation.stepping import make_natural_stepper, make_secant_stepper
    from hiten.algorithms.continuation.stepping.support import _VectorSpaceSecantSupport, _NullStepSupport

    corr = Corrector(outcomes, len(cfg["step"]))
    req, seed = _mk_request(cfg, corr)
    if cfg["stepper"] == "secant":
        be = _PredictorCorrectorContinuationBackend(stepper_factory=make_secant_stepper(), support_factory=_VectorSpaceSecantSupport)
    else:
        be = _PredictorCorrectorContinuationBackend(stepper_factory=make_natural_stepper(), support_factory=_NullStepSupport)
    out = be.run(request=req)
    return out, corr


# ------------------------------------------------------------------ reference model (from the property text)
def _clamp(v, lo, hi):
    return np.sign(v) * np.clip(np.abs(v), lo, hi)


def model_run(cfg, outcomes):
    npar = len(cfg["step"])
    seed = _curve(np.zeros(npar)) if npar == 1 else np.array([0.0, 0.0, 0.0])
    fam = [seed]
    step = np.array(cfg["step"], dtype=float)
    tmin, tmax = np.array(cfg["target"][0], dtype=float), np.array(cfg["target"][1], dtype=float)
    acc, rej, calls = 1, 0, 0
    preds = []
    states = set()
    d0 = np.zeros(3)
    d0[:npar] = step
    tangent = d0 / np.linalg.norm(d0)
    stop = None
    corr = Corrector(outcomes, npar)
    while acc < cfg["max_members"] and stop is None:
        last = fam[-1]
        attempt = 0
        while True:
            states.add((len(fam), tuple(np.round(step, 14)), attempt))
            if cfg["stepper"] == "natural":
                pred = last.copy()
                pred[:npar] += step
            else:
                pred = last + tangent * float(np.linalg.norm(step))
            preds.append(pred)
            o = outcomes[calls] if calls < len(outcomes) else "A"
            calls += 1
            if o == "A":
                new = corr._corrected(pred)
                fam.append(new)
                acc += 1
                d = new - last
                nd = np.linalg.norm(d)
                if nd > 0:
                    tangent = d / nd
                step = _clamp(step, cfg["step_min"], cfg["step_max"])
                par = new[:npar]
                if np.any(par < tmin) or np.any(par > tmax):
                    stop = "left_target"
                break
            rej += 1
            attempt += 1
            pol = _shrink(cfg["shrink"])
            try:
                new_step = pol(step) if pol is not None else step * 0.5
            except Exception:
                new_step = step * 0.5
            step = _clamp(new_step, cfg["step_min"], cfg["step_max"])
            if attempt > cfg["max_retries"]:
                stop = "gave_up"
                break
    if stop is None:
        stop = "max_members"
    return {"family": fam, "accepted": acc, "rejected": rej, "calls": calls, "preds": preds, "final_step": step, "stop": stop, "states": states}


def compare(cfg, outcomes):
    """run implementation + model, return (violations, consumed, model_result)"""
    out, corr = _run_impl(cfg, outcomes)
    m = model_run(cfg, outcomes)
    fam = [np.asarray(f, dtype=float) for f in out.family_repr]
    info = out.info
    v = []
    npar = len(cfg["step"])
    tmin, tmax = np.array(cfg["target"][0], dtype=float), np.array(cfg["target"][1], dtype=float)
    tag = "cfg=%s outcomes=%s" % ({k: cfg[k] for k in ("stepper", "step", "target", "max_members", "max_retries", "step_min", "step_max", "shrink")}, "".join(outcomes) or "-")

    def V(key, what, obs=None, exp=None):
        v.append(violation("loop/" + key, what + " [" + tag + "]", obs, exp, ("run_one", {"cfg": cfg, "outcomes": list(outcomes)})))

    # invariants straight from the statement
    if len(fam) > cfg["max_members"]:
        V("member_limit", "family has %d members, limit %d" % (len(fam), cfg["max_members"]), len(fam), cfg["max_members"])
    outside = [i for i, f in enumerate(fam) if np.any(f[:npar] < tmin) or np.any(f[:npar] > tmax)]
    if any(i != len(fam) - 1 for i in outside):
        V("target_interval", "member(s) %s of %d lie outside the target interval but generation continued (only the last member may lie outside)" % (outside, len(fam)), outside, [len(fam) - 1])
    n_rej_events = sum(1 for _, o in corr.calls if o in ("R", "X"))
    n_acc_events = sum(1 for _, o in corr.calls if o == "A")
    if int(info["rejected_count"]) != n_rej_events:
        V("rejected_count", "reported rejected_count=%s, %d reject/raise events occurred" % (info["rejected_count"], n_rej_events), info["rejected_count"], n_rej_events)
    if int(info["accepted_count"]) != 1 + n_acc_events or int(info["accepted_count"]) != len(fam):
        V("accepted_count", "reported accepted_count=%s, family has %d members, %d accept events" % (info["accepted_count"], len(fam), n_acc_events), info["accepted_count"], len(fam))
    if int(info["iterations"]) != len(corr.calls):
        V("iterations", "reported iterations=%s, corrector was called %d times" % (info["iterations"], len(corr.calls)), info["iterations"], len(corr.calls))
    # retry limit: no step may see more than max_retries+1 consecutive failures, and a run that stops early must have seen exactly that
    run_len = 0
    worst = 0
    for _, o in corr.calls:
        run_len = run_len + 1 if o != "A" else 0
        worst = max(worst, run_len)
    if worst > cfg["max_retries"] + 1:
        V("retry_limit", "%d consecutive failed corrections of one step, retry limit %d" % (worst, cfg["max_retries"]), worst, cfg["max_retries"] + 1)
    # agreement with the reference model, step by step
    if len(corr.calls) != m["calls"]:
        V("calls/" + m["stop"], "corrector called %d times, reference model expects %d (model stop reason: %s)" % (len(corr.calls), m["calls"], m["stop"]), len(corr.calls), m["calls"])
    for i, ((p_impl, _), p_mod) in enumerate(zip(corr.calls, m["preds"])):
        if np.max(np.abs(p_impl - p_mod)) > 1e-12:
            V("prediction/" + cfg["stepper"], "prediction %d is %s, expected %s (offset from the last member by the current step)" % (i, p_impl.tolist(), p_mod.tolist()), p_impl, p_mod)
            break
    if len(fam) != len(m["family"]):
        V("family_length/" + m["stop"], "family has %d members, reference model %d (stop reason %s)" % (len(fam), len(m["family"]), m["stop"]), len(fam), len(m["family"]))
    else:
        for i, (a, b) in enumerate(zip(fam, m["family"])):
            if np.max(np.abs(a - b)) > 1e-12:
                V("family_member", "member %d differs from the reference model" % i, a, b)
                break
        pv = info["parameter_values"]
        if len(pv) != len(fam) or any(np.max(np.abs(np.asarray(p) - f[:npar])) > 1e-12 for p, f in zip(pv, fam)):
            V("parameter_values", "reported parameter history does not match the members")
    fs = np.asarray(info["final_step"], dtype=float)
    if fs.shape != m["final_step"].shape or np.max(np.abs(fs - m["final_step"])) > 1e-13:
        V("final_step", "final step %s, reference model %s" % (fs.tolist(), m["final_step"].tolist()), fs, m["final_step"])
    if np.any(np.abs(fs) > cfg["step_max"] * (1 + 1e-12)) or np.any((np.abs(fs) < cfg["step_min"] * (1 - 1e-12)) & (fs != 0)):
        V("step_bounds", "final step %s outside [step_min, step_max]" % fs.tolist(), fs)
    return v, len(corr.calls), m


def k_config(params):
    """complete DFS over outcome sequences for one configuration"""
    cfg = params["cfg"]
    viol = {}
    runs = 0
    transitions = 0
    nontriv = 0
    states = set()
    stops = {}
    stack = [[]]
    max_depth = 0
    cap = params.get("cap", 200000)
    capped = 0
    while stack:
        prefix = stack.pop()
        vs, consumed, m = compare(cfg, prefix)
        for v in vs:
            viol.setdefault(v["key"], v)
        if consumed > len(prefix):
            # the run consumed default answers beyond the prefix: branch on the first undecided answer
            # (the default 'A' branch at this position is the run just executed when extended by 'A')
            for o in ALPH:
                stack.append(prefix + [o])
            continue
        # complete run: every answer it consumed was decided by the prefix
        runs += 1
        transitions += consumed
        max_depth = max(max_depth, consumed)
        states |= {(s) for s in m["states"]}
        stops[m["stop"]] = stops.get(m["stop"], 0) + 1
        if any(o != "A" for o in prefix) or m["stop"] == "left_target":
            nontriv += 1
        if runs >= cap:
            capped = 1
            break
    st = {"complete_runs": runs, "corrector_calls": transitions, "loop_states": len(states), "max_depth": max_depth, "capped_configs": capped}
    for k, v in stops.items():
        st["stop_" + k] = v
    return res(evals=runs, nontrivial=nontriv, viol=list(viol.values()), stats=st,
               sample={"cfg": cfg, "complete_runs": runs, "max_depth": max_depth, "stop_reasons": stops})


def k_run_one(params):
    vs, consumed, m = compare(params["cfg"], params["outcomes"])
    return res(viol=vs, nontrivial=1)


def k_interface(params):
    """The orbit continuation interface builds the request (predictor, parameter getter, step, target) from a config: every ordered
    choice of continuation state indices, with unequal step components, must give predictions offset by the step *in the continuation
    parameters as the getter reads them*. The real backend is run on the interface-built request with the corrector swapped for the harness one."""
    import dataclasses
    from hiten.system.base import System
    from hiten.system.orbits.base import GenericOrbit
    from hiten.algorithms.continuation.interfaces import _OrbitContinuationInterface
    from hiten.algorithms.continuation.config import OrbitContinuationConfig
    from hiten.algorithms.continuation.options import OrbitContinuationOptions
    from hiten.algorithms.continuation.backends.pc import _PredictorCorrectorContinuationBackend
    from hiten.algorithms.continuation.stepping import make_natural_stepper, make_secant_stepper
    from hiten.algorithms.continuation.stepping.support import _VectorSpaceSecantSupport, _NullStepSupport

    system = System.from_mu(0.01215)
    L1 = system.get_libration_point(1)
    seed_state = np.array([0.82, 0.01, 0.03, 0.02, 0.15, -0.01])
    orbit = GenericOrbit(L1, initial_state=seed_state)
    viol = {}
    n = 0
    nontriv = 0
    idx_sets = [(i,) for i in range(6)] + [(i, j) for i in range(6) for j in range(6) if i != j] + [(5, 2, 0), (1, 4, 3)]
    for idx in idx_sets[params["lo"]:params["hi"]]:
        k = len(idx)
        step = np.array([0.01, -0.02, 0.005][:k])
        for stepper in ("natural", "secant"):
            cfg = OrbitContinuationConfig(state=idx, stepper=stepper)
            opts = OrbitContinuationOptions(target=np.array([[-10.0] * k, [10.0] * k]), step=step, max_members=4, max_retries_per_step=2, step_min=1e-6, step_max=1.0)
            iface = _OrbitContinuationInterface()
            problem = iface.create_problem(domain_obj=orbit, config=cfg, options=opts)
            req = iface.to_backend_inputs(problem).request
            for outcomes in (["A", "A", "A"], ["R", "A", "X", "A", "A"], ["A", "R", "R", "A", "A"]):
                n += 1
                calls = []

                def corr(pred, _o=outcomes, _c=calls):
                    i = len(_c)
                    o = _o[i] if i < len(_o) else "A"
                    _c.append((np.array(pred, dtype=float), o))
                    if o == "X":
                        raise RuntimeError("injected")
                    if o == "R":
                        return np.array(pred, dtype=float), 1.0, False
                    out = np.array(pred, dtype=float)
                    out[(idx[0] + 1) % 6] += 0.003 * (1 + len(_c))   # the corrector moves a non-parameter component: secants turn
                    return out, 1e-13, True, {}
                req2 = dataclasses.replace(req, corrector=corr)
                if stepper == "secant":
                    be = _PredictorCorrectorContinuationBackend(stepper_factory=make_secant_stepper(), support_factory=_VectorSpaceSecantSupport)
                else:
                    be = _PredictorCorrectorContinuationBackend(stepper_factory=make_natural_stepper(), support_factory=_NullStepSupport)
                out = be.run(request=req2)
                nontriv += 1
                # replay: track last member and current step from the outcomes (halving on failure, clamp irrelevant here)
                last = np.asarray(req.seed_repr, dtype=float)
                prev = None
                cur = step.copy()
                tag = "indices=%s step=%s stepper=%s outcomes=%s" % (idx, step.tolist(), stepper, "".join(outcomes))
                for ci, (pred, o) in enumerate(calls):
                    got = np.asarray(req.parameter_getter(pred), dtype=float) - np.asarray(req.parameter_getter(last), dtype=float)
                    if stepper == "natural":
                        if np.max(np.abs(got - cur)) > 1e-13:
                            viol.setdefault("interface/prediction/natural", violation("interface/prediction/natural",
                                            "prediction changes the continuation parameters by %s, current step is %s [%s]" % (got.tolist(), cur.tolist(), tag), got, cur))
                        other = np.delete(pred - last, list(idx))
                        if np.max(np.abs(other)) > 1e-13:
                            viol.setdefault("interface/prediction/other_components", violation("interface/prediction/other_components",
                                            "natural prediction moves components that are not continuation parameters by %s [%s]" % (other.tolist(), tag), other, 0.0))
                    else:
                        if prev is None:
                            d0 = np.zeros(6)
                            for ii, dd in zip(idx, step):
                                d0[ii] += dd
                            tan = d0 / np.linalg.norm(d0)
                        else:
                            tan = (last - prev) / np.linalg.norm(last - prev)
                        exp = tan * float(np.linalg.norm(cur))
                        if np.max(np.abs((pred - last) - exp)) > 1e-12:
                            viol.setdefault("interface/prediction/secant", violation("interface/prediction/secant",
                                            "secant prediction offset %s, expected |step| * unit secant = %s [%s]" % ((pred - last).tolist(), exp.tolist(), tag), pred - last, exp))
                    if o == "A":
                        prev = last
                        # the accepted member is what the corrector returned for this call
                        acc = np.array(pred, dtype=float)
                        acc[(idx[0] + 1) % 6] += 0.003 * (1 + (ci + 1))
                        last = acc
                    else:
                        cur = cur * 0.5
                fam = [np.asarray(f, dtype=float) for f in out.family_repr]
                pv = out.info["parameter_values"]
                if any(np.max(np.abs(np.asarray(p) - f[list(idx)])) > 1e-13 for p, f in zip(pv, fam)):
                    viol.setdefault("interface/parameter_values", violation("interface/parameter_values", "reported parameter values are not the members' continuation parameters in the configured order [%s]" % tag))
    return res(evals=n, nontrivial=nontriv, viol=list(viol.values()), stats={"interface_runs": n}, sample={"index_sets": [list(i) for i in idx_sets[params["lo"]:params["lo"] + 3]], "runs": n})


def k_family(params):
    """end-to-end: PeriodicOrbit.generate on a corrected seed; every member must be periodic with its *own* period (independent propagation),
    the family respects the member limit and the target interval, and natural steps move the continuation parameter by the step"""
    from hiten.system.base import System
    from hiten.algorithms.continuation.config import OrbitContinuationConfig
    from hiten.algorithms.continuation.options import OrbitContinuationOptions
    from hiten.algorithms.types.states import SynodicState
    from props.c05 import make_orbit, closure

    system = System.from_bodies("earth", "moon")
    mu = float(system.mu)
    fam, Ln, amp = params["family"], params["point"], params["amp"]
    stepper = params["stepper"]
    viol = {}
    tag = "family=%s L%d amplitude=%g stepper=%s" % (fam, Ln, amp, stepper)

    def V(key, what, obs=None, exp=None):
        viol.setdefault("family/" + key, violation("family/" + key, what + " [%s]" % tag, obs, exp))
    seed_orbit = make_orbit(system, fam, Ln, amp)
    seed_orbit.correct()
    idx = int(SynodicState.Z) if fam.startswith("halo") else int(SynodicState.X)
    p0 = float(seed_orbit.initial_state[idx])
    step = params["step"]
    mm = params["max_members"]
    lo, hi = (p0 - 1e-9, p0 + params["target_span"]) if step > 0 else (p0 - params["target_span"], p0 + 1e-9)  # the seed itself is inside
    seed_orbit.continuation_config = OrbitContinuationConfig(state=(SynodicState.Z,) if fam.startswith("halo") else (SynodicState.X,), stepper=stepper)
    opts = OrbitContinuationOptions(target=([lo], [hi]), step=(step,), max_members=mm, max_retries_per_step=5, step_min=1e-8, step_max=1.0, shrink_policy=None,
                                    extra_params=seed_orbit.correction_options)
    try:
        result = seed_orbit.generate(opts)
    except Exception as exc:
        V("raises", "generate raised %s: %s" % (type(exc).__name__, str(exc)[:160]))
        return res(evals=1, nontrivial=0, viol=list(viol.values()))
    members = list(result.family)
    n = len(members)
    if n > mm:
        V("member_limit", "family has %d members, limit %d" % (n, mm), n, mm)
    if int(result.accepted_count) != n:
        V("accepted_count", "accepted_count=%s, family has %d members" % (result.accepted_count, n), result.accepted_count, n)
    pars = [float(m.initial_state[idx]) for m in members]
    out_of = [i for i, p in enumerate(pars) if p < lo or p > hi]
    if any(i != n - 1 for i in out_of):
        V("target_interval", "members %s lie outside the target interval [%g, %g] but generation continued" % (out_of, lo, hi), out_of)
    periods = []
    closures = []
    for i, m in enumerate(members):
        T = m.period
        if T is None:
            V("member_period_missing", "member %d carries no period" % i)
            continue
        periods.append(float(T))
        c = closure(mu, np.asarray(m.initial_state, dtype=float), float(T))
        closures.append(c)
        if c > 1e-6:
            V("member_not_periodic", "member %d (parameter %.6f) does not return after its own period %.6f: |phi_T(x0)-x0| = %.3e" % (i, pars[i], T, c), c, 1e-6)
    if len(periods) >= 2 and max(periods) - min(periods) < 1e-9:
        V("periods_identical", "all members carry the same period %.9f (each member must carry its own)" % periods[0], periods)
    if stepper == "natural" and n >= 2:
        d = np.diff(pars)
        if np.max(np.abs(np.abs(d) - abs(step))) > 1e-9 and int(result.rejected_count) == 0:
            V("natural_step", "consecutive members differ by %s in the continuation parameter, step is %g (no rejection occurred)" % (d.tolist(), step), d, step)
    # OrbitFamily.from_result: same members, same order, their own periods and parameter values
    try:
        from hiten.system.family import OrbitFamily
        famobj = OrbitFamily.from_result(result)
        if len(famobj) != n:
            V("orbit_family/length", "OrbitFamily.from_result has %d orbits, the result has %d members" % (len(famobj), n), len(famobj), n)
        else:
            fp = np.asarray(famobj.periods, dtype=float)
            if len(periods) == n and np.max(np.abs(fp - np.asarray(periods))) > 0:
                V("orbit_family/periods", "OrbitFamily.periods %s differ from the members' own periods %s" % (fp.tolist(), periods), fp, periods)
            pv = np.asarray(famobj.parameter_values, dtype=float)
            if np.max(np.abs(pv - np.asarray(pars))) > 1e-12:
                V("orbit_family/parameter_values", "OrbitFamily.parameter_values %s are not the members' continuation parameters %s" % (pv.tolist(), pars), pv, pars)
            for i, (a, b) in enumerate(zip(famobj, members)):
                if np.max(np.abs(np.asarray(a.initial_state) - np.asarray(b.initial_state))) > 0:
                    V("orbit_family/members", "OrbitFamily orbit %d is not member %d of the result" % (i, i))
                    break
    except Exception as exc:
        V("orbit_family/raises", "OrbitFamily.from_result raised %s: %s" % (type(exc).__name__, str(exc)[:120]))
    # a second generation from the same seed object with a smaller member limit: the statement holds for it again (limit, counts, step), and
    # it is the prefix of the first family (the loop is deterministic and must not remember the first run)
    if n >= 3:
        mm2 = n - 1
        opts2 = OrbitContinuationOptions(target=([lo], [hi]), step=(step,), max_members=mm2, max_retries_per_step=5, step_min=1e-8, step_max=1.0, shrink_policy=None,
                                         extra_params=seed_orbit.correction_options)
        try:
            r2 = seed_orbit.generate(opts2)
            m2 = list(r2.family)
            p2 = [float(m.initial_state[idx]) for m in m2]
            if len(m2) > mm2:
                V("second_run/member_limit", "second generate() from the same seed: %d members, limit %d" % (len(m2), mm2), len(m2), mm2)
            if int(r2.accepted_count) != len(m2):
                V("second_run/accepted_count", "second generate(): accepted_count=%s, family has %d members" % (r2.accepted_count, len(m2)), r2.accepted_count, len(m2))
            if len(p2) == mm2 and np.max(np.abs(np.asarray(p2) - np.asarray(pars[:mm2]))) > 1e-9:
                V("second_run/members", "second generate() from the same seed (max_members=%d) gives parameters %s, the first run gave %s" % (mm2, p2, pars[:mm2]), p2, pars[:mm2])
            if any(m.period is None or abs(float(m.period) - periods[i]) > 1e-7 for i, m in enumerate(m2[:len(periods)])):
                V("second_run/periods", "second generate(): member periods %s differ from the first run's %s" % ([m.period for m in m2], periods[:len(m2)]))
        except Exception as exc:
            V("second_run/raises", "second generate() from the same seed raised %s: %s" % (type(exc).__name__, str(exc)[:120]))
    return res(evals=n, nontrivial=n if n >= 2 else 0, viol=list(viol.values()), stats={"family_members_checked": n},
               sample={"tag": tag, "members": n, "parameters": pars, "periods": periods, "max_closure": max(closures) if closures else None})


KINDS = {"config": k_config, "run_one": k_run_one, "interface": k_interface, "family": k_family}


def cases(tier, seed):
    o = seed_offsets(seed, 2, 0.2)
    s = 0.02 * (1 + o[0])
    out = []
    steps = [[s], [-s], [s, -0.8 * s]]
    lim = [(1, 0), (2, 1), (4, 1), (3, 3), (4, 0)] if tier == "quick" else [(1, 0), (2, 0), (2, 1), (3, 1), (4, 1), (3, 3), (4, 2), (5, 1), (4, 0)]
    for stepper in ("natural", "secant"):
        for step in steps:
            npar = len(step)
            sg = 1.0 if step[0] > 0 else -1.0
            targets = []
            # (a) interval left by the 2nd generated member when no step is rejected, (b) by the 4th, (c) never
            lo1, hi1 = sorted((-1.0 * sg, 1.5 * s * sg))
            lo2, hi2 = sorted((-1.0 * sg, 3.5 * s * sg))
            if npar == 1:
                targets = [([lo1], [hi1]), ([lo2], [hi2]), ([-10.0], [10.0])]
            else:
                targets = [([lo1, -10.0], [hi1, 10.0]), ([-10.0, -2.0 * s], [10.0, 10.0]), ([-10.0, -10.0], [10.0, 10.0])]
            for tgt in targets:
                for (mm, mr) in lim:
                    for (smin, smax) in ((1e-3 * s / 0.02, 1.0), (0.75 * s, 1.0 * s)):
                        for shrink in ("none", "quarter", "raising"):
                            out.append(("config", {"cfg": {"stepper": stepper, "step": step, "target": [tgt[0], tgt[1]], "max_members": mm, "max_retries": mr,
                                                           "step_min": smin, "step_max": smax, "shrink": shrink}}))
    for lo in range(0, 38, 10):
        out.append(("interface", {"lo": lo, "hi": lo + 10}))
    for stepper in ("natural", "secant"):
        out.append(("family", {"family": "halo_s", "point": 1, "amp": 0.2, "stepper": stepper, "step": 0.002, "target_span": 0.005, "max_members": 6}))
        out.append(("family", {"family": "lyapunov", "point": 1, "amp": 0.02, "stepper": stepper, "step": 0.001, "target_span": 0.1, "max_members": 4}))
        if tier != "quick":
            out.append(("family", {"family": "halo_n", "point": 2, "amp": 0.1, "stepper": stepper, "step": -0.002, "target_span": 0.1, "max_members": 5}))
    return out


def finalize(cov, results, tier, case_list):
    cov["states"] = int(cov.get("loop_states", 0))
    cov["transitions"] = int(cov.get("corrector_calls", 0))
    cov["traces_validated_against_impl"] = int(cov.get("complete_runs", 0))
    cov["deviation_bound_completed"] = "unbounded (every outcome sequence followed until the run returned)"
    if cov.get("capped_configs", 0):
        cov["exhaustive"] = False
    return []
