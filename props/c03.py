"""C03 - the state-transition matrix is the derivative of the flow and is symplectic.

Lattice: mu x initial states x durations x (method, order) x direction; periodic orbits: corrected
halo N/S and planar Lyapunov at L1/L2.
Oracle: (i) Phi(tf) from _compute_stm = Richardson central-difference derivative of the *same*
propagation layer's flow and = an independent reference (scipy DOP853 on harness-side variational
equations); (ii) Phi^T W Phi = W for the CR3BP two-form in (r,v) coordinates, det = 1, reciprocal
eigenvalue pairs; (iii) periodic orbits: M f(x0) = f(x0), stability indices = (lambda+1/lambda)/2
of the reference monodromy.
"""
import math

import numpy as np

from engine.core import res, violation, seed_offsets

ID = "C03"
LEVEL = "exploration"
WORKERS = {"quick": 12, "thorough": 16}
RULE = ("complete product mu{3e-6,0.01215,0.1} x initial states x tf{0.3,1.0,2.5} x {adaptive 8, adaptive 5, fixed 8} x direction{+1,-1}; periodic orbits {halo N,S, Lyapunov} x {L1,L2} x 2 amplitudes; every sequence of <= 3 operations {read monodromy, set period T0, set period 0.6 T0, propagate} on one orbit object followed by a read; "
        "non-trivial = STM compared entry-wise with both references; distinct = (mu, state, tf, method, direction) / orbit")
ASSUMPTIONS = [
    "two-form W = T^T J T with T = [[I,0],[K,I]], K = [[0,-1,0],[1,0,0],[0,0,0]] (canonical momenta px=vx-y, py=vy+x, pz=vz), built in the harness",
    "for direction -1 the reference is the derivative of the backward flow x0 -> phi_{-tf}(x0)",
    "tolerances: 2e-6 relative vs finite differences of the library flow, 1e-6 vs the independent variational reference, 1e-7 symplecticity (scaled by |Phi|^2)",
]

_L = {}


def worker_init():
    if _L:
        return
    from hiten.system.base import System
    from hiten.algorithms.dynamics.rtbp import _compute_stm
    from hiten.algorithms.dynamics.base import _propagate_dynsys

    _L.update(System=System, stm=_compute_stm, prop=_propagate_dynsys)


def _field_jac(mu):
    def f(s):
        x, y, z, vx, vy, vz = s
        r1 = math.sqrt((x + mu) ** 2 + y * y + z * z)
        r2 = math.sqrt((x - 1 + mu) ** 2 + y * y + z * z)
        return np.array([vx, vy, vz, 2 * vy + x - (1 - mu) * (x + mu) / r1 ** 3 - mu * (x - 1 + mu) / r2 ** 3,
                         -2 * vx + y - (1 - mu) * y / r1 ** 3 - mu * y / r2 ** 3, -(1 - mu) * z / r1 ** 3 - mu * z / r2 ** 3])

    def jac(s):
        x, y, z = s[0], s[1], s[2]
        m1, m2 = 1 - mu, mu
        d1 = np.array([x + mu, y, z]); d2 = np.array([x - 1 + mu, y, z])
        r1, r2 = np.linalg.norm(d1), np.linalg.norm(d2)
        U = -(m1 / r1 ** 3 + m2 / r2 ** 3) * np.eye(3) + 3 * m1 * np.outer(d1, d1) / r1 ** 5 + 3 * m2 * np.outer(d2, d2) / r2 ** 5
        U[0, 0] += 1.0; U[1, 1] += 1.0
        J = np.zeros((6, 6))
        J[:3, 3:] = np.eye(3)
        J[3:, :3] = U
        J[3, 4] = 2.0; J[4, 3] = -2.0
        return J
    return f, jac


def ref_stm(mu, x0, t_signed):
    from scipy.integrate import solve_ivp
    f, jac = _field_jac(mu)

    def rhs(t, Y):
        s = Y[:6]
        P = Y[6:].reshape(6, 6)
        return np.concatenate((f(s), (jac(s) @ P).ravel()))
    Y0 = np.concatenate((np.asarray(x0, dtype=float), np.eye(6).ravel()))
    sol = solve_ivp(rhs, (0.0, t_signed), Y0, method="DOP853", rtol=1e-13, atol=1e-14)
    X = sol.y[:3, :]
    dmin = min(float(np.min(np.sqrt((X[0] + mu) ** 2 + X[1] ** 2 + X[2] ** 2))), float(np.min(np.sqrt((X[0] - 1 + mu) ** 2 + X[1] ** 2 + X[2] ** 2))))
    ref_stm.last_min_distance = dmin
    return sol.y[:6, -1], sol.y[6:, -1].reshape(6, 6)


def W_form():
    K = np.array([[0.0, -1.0, 0.0], [1.0, 0.0, 0.0], [0.0, 0.0, 0.0]])
    T = np.eye(6)
    T[3:, :3] = K
    J = np.zeros((6, 6)); J[:3, 3:] = np.eye(3); J[3:, :3] = -np.eye(3)
    return T.T @ J @ T


def check_phi(Phi, tagv, V, mu, x_end=None):
    W = W_form()
    sc = 1.0 + float(np.max(np.abs(Phi))) ** 2
    S = Phi.T @ W @ Phi - W
    es = float(np.max(np.abs(S)))
    if es > 1e-7 * sc:
        V("symplectic", "Phi^T W Phi - W has max entry %.3e (|Phi|max=%.3g) %s" % (es, float(np.max(np.abs(Phi))), tagv), es, 0.0)
    d = float(np.linalg.det(Phi))
    if abs(d - 1.0) > 1e-6 * sc:
        V("determinant", "det Phi = %.9g %s" % (d, tagv), d, 1.0)
    ev = np.linalg.eigvals(Phi)
    for lam in ev:
        if min(abs(1.0 / lam - e2) for e2 in ev) > 1e-5 * max(1.0, abs(1.0 / lam)) * (1 + float(np.max(np.abs(Phi)))):
            V("reciprocal_pairs", "eigenvalue %s has no reciprocal partner %s" % (lam, tagv), [lam.real, lam.imag])
            break


def k_stm(params):
    stm, prop = _L["stm"], _L["prop"]
    mu = params["mu"]
    system = _L["System"].from_mu(mu)
    var = system.var_dynsys
    dyn = system.dynsys
    viol = {}
    n = 0
    nontriv = 0
    mx = {"max_rel_err_vs_reference": 0.0, "max_rel_err_vs_fd": 0.0}
    for x0 in params["states"]:
        x0 = np.array(x0, dtype=float)
        for tf in params["tfs"]:
            for method, order, steps in params["methods"]:
                for forward in (1, -1):
                    n += 1
                    tag = "[mu=%g x0=%s tf=%g method=%s order=%d forward=%d]" % (mu, np.round(x0, 4).tolist(), tf, method, order, forward)

                    def V(key, what, obs=None, exp=None, _f=forward):
                        k2 = "stm/%s/fwd%d" % (key, _f)
                        viol.setdefault(k2, violation(k2, what, obs, exp))
                    try:
                        x, t, Phi, PHI = stm(var, x0, tf, steps=steps, forward=forward, method=method, order=order)
                    except Exception as exc:
                        V("raises", "_compute_stm raised %s: %s %s" % (type(exc).__name__, str(exc)[:120], tag))
                        continue
                    Phi = np.asarray(Phi, dtype=float)
                    xe_ref, Phi_ref = ref_stm(mu, x0, forward * tf)
                    if ref_stm.last_min_distance < max(0.03, 0.5 * (mu / 3.0) ** (1.0 / 3.0)) or float(np.max(np.abs(Phi_ref))) > 1e4:
                        mx["skipped_close_approach"] = mx.get("skipped_close_approach", 0) + 1
                        continue   # the statement is about states away from the primaries (along the whole arc); extreme stretching is ill-conditioned
                    nontriv += 1
                    sc = 1.0 + float(np.max(np.abs(Phi_ref)))
                    tol_int = 1e-6 if method == "adaptive" else 3e-6
                    # trajectory block
                    if float(np.max(np.abs(np.asarray(x)[-1] - xe_ref))) > tol_int * 10:
                        V("trajectory_block", "final state of the STM propagation differs from the reference flow by %.3e %s" % (float(np.max(np.abs(np.asarray(x)[-1] - xe_ref))), tag))
                    if t[0] != 0 or (forward == -1 and np.any(np.asarray(t) > 0)):
                        V("times", "times of the STM propagation are not signed consistently %s" % tag)
                    e_ref = float(np.max(np.abs(Phi - Phi_ref))) / sc
                    mx["max_rel_err_vs_reference"] = max(mx["max_rel_err_vs_reference"], e_ref if e_ref < 1 else 1.0)
                    if e_ref > tol_int:
                        i, j = np.unravel_index(int(np.argmax(np.abs(Phi - Phi_ref))), (6, 6))
                        V("vs_reference", "Phi(tf) differs from the derivative of the %s flow (independent variational reference): rel %.3e, entry [%d,%d] = %.9g vs %.9g %s" % (
                            "backward" if forward == -1 else "forward", e_ref, i, j, Phi[i, j], Phi_ref[i, j], tag), Phi[i, j], Phi_ref[i, j])
                    # finite differences of the library's own flow (Richardson), only on a sub-lattice (12 propagations each)
                    if params.get("fd", True) and method == "adaptive" and order == 8 and tf <= 1.0:
                        D = np.zeros((6, 6))
                        for j in range(6):
                            def dif(dd):
                                a = x0.copy(); b = x0.copy()
                                a[j] += dd; b[j] -= dd
                                sa = prop(dyn, a, 0.0, tf, forward=forward, steps=2, method=method, order=order).states[-1]
                                sb = prop(dyn, b, 0.0, tf, forward=forward, steps=2, method=method, order=order).states[-1]
                                return (sa - sb) / (2 * dd)
                            d0 = 2e-4
                            D[:, j] = (4 * dif(d0 / 2) - dif(d0)) / 3
                        e_fd = float(np.max(np.abs(Phi - D))) / sc
                        mx["max_rel_err_vs_fd"] = max(mx["max_rel_err_vs_fd"], e_fd if e_fd < 1 else 1.0)
                        if e_fd > 2e-6:
                            V("vs_finite_differences", "Phi(tf) differs from the finite-difference derivative of the library's own flow: rel %.3e %s" % (e_fd, tag), e_fd, 0.0)
                    check_phi(Phi, tag, V, mu)
    return res(evals=n, nontrivial=nontriv, viol=list(viol.values()), stats=mx, sample={"mu": mu, "stm_evaluations": n, **mx})


def k_orbit(params):
    from props.c05 import make_orbit

    sysn = params["system"]
    system = _L["System"].from_bodies(*sysn) if isinstance(sysn, list) else _L["System"].from_mu(sysn)
    mu = float(system.mu)
    fam, Ln, amp = params["family"], params["point"], params["amp"]
    tag = "[family=%s L%d system=%s amplitude=%g]" % (fam, Ln, sysn, amp)
    viol = {}

    def V(key, what, obs=None, exp=None):
        viol.setdefault("orbit/" + key, violation("orbit/" + key, what, obs, exp))
    try:
        orbit = make_orbit(system, fam, Ln, amp)
        orbit.correct()
    except Exception as exc:
        return res(evals=1, nontrivial=0, sample={"tag": tag, "outcome": "correction rejected: %s" % type(exc).__name__})
    x0 = np.array(orbit.initial_state, dtype=float)
    T = float(orbit.period)
    M = np.asarray(orbit.monodromy, dtype=float)
    _, Mref = ref_stm(mu, x0, T)
    sc = 1.0 + float(np.max(np.abs(Mref)))
    e = float(np.max(np.abs(M - Mref))) / sc
    if e > 1e-6:
        V("monodromy_vs_reference", "orbit.monodromy differs from the reference monodromy by rel %.3e %s" % (e, tag), e, 0.0)
    f, _ = _field_jac(mu)
    fx = f(x0)
    r = float(np.max(np.abs(M @ fx - fx))) / (1.0 + float(np.max(np.abs(fx)))) / sc
    if r > 1e-6:
        V("velocity_eigenvector", "monodromy does not map the orbit's velocity vector to itself: rel residual %.3e %s" % (r, tag), r, 0.0)
    check_phi(M, tag, V, mu)
    # stability indices vs reference eigenvalues
    evr = np.linalg.eigvals(Mref)
    ref_nu = sorted({round(float((0.5 * (l + 1.0 / l)).real), 6) for l in evr if abs(0.5 * (l + 1.0 / l) - 1.0) > 1e-4}, key=abs)
    try:
        nus = [complex(v) for v in np.ravel(orbit.stability_indices) if v is not None]
    except Exception as exc:
        V("stability_raises", "stability_indices raises %s: %s %s" % (type(exc).__name__, str(exc)[:100], tag))
        nus = []
    for nu in nus:
        if abs(nu.imag) > 1e-6 * (1 + abs(nu)):
            continue
        if abs(nu.real - 1.0) < 1e-3:
            continue
        if not any(abs(nu.real - r_) <= 1e-5 * (1 + abs(r_)) * sc for r_ in ref_nu):
            V("stability_index", "stability index %.9g is not (lambda+1/lambda)/2 of a reciprocal pair of the reference monodromy (reference indices %s) %s" % (nu.real, ref_nu, tag), nu.real, ref_nu)
    return res(evals=1, nontrivial=1, viol=list(viol.values()), sample={"tag": tag, "monodromy_rel_err": e, "reference_indices": ref_nu[:3]})


def k_orbit_history(params):
    """every sequence of up to `depth` operations {read monodromy, period := T0, period := 0.6 T0, propagate} on one orbit object, then a read:
    whenever the monodromy is read it must be the derivative of the flow over the orbit's *current* period from its current initial state"""
    import itertools
    from props.c05 import make_orbit
    from hiten.system.orbits.base import GenericOrbit

    sysn = params["system"]
    system = _L["System"].from_bodies(*sysn) if isinstance(sysn, list) else _L["System"].from_mu(sysn)
    mu = float(system.mu)
    fam, Ln, amp = params["family"], params["point"], params["amp"]
    tag = "[family=%s L%d system=%s amplitude=%g]" % (fam, Ln, sysn, amp)
    try:
        seed = make_orbit(system, fam, Ln, amp)
        seed.correct()
    except Exception as exc:
        return res(evals=1, nontrivial=0, sample={"tag": tag, "outcome": "correction rejected: %s" % type(exc).__name__})
    x0 = np.array(seed.initial_state, dtype=float)
    T0 = float(seed.period)
    pt = system.get_libration_point(Ln)
    periods = {"P1": T0, "P2": 0.6 * T0}
    refs = {}

    def ref(T):
        if T not in refs:
            refs[T] = ref_stm(mu, x0, T)[1]
        return refs[T]
    viol = {}
    n = nt = 0
    outcomes = set()
    ops = ["R", "P1", "P2", "PROP"]
    for depth in range(0, params["depth"] + 1):
        for seq in itertools.product(ops, repeat=depth):
            orb = GenericOrbit(pt, initial_state=x0.copy())
            orb.period = T0
            cur = T0
            hist = list(seq) + ["R"]
            reads = []
            for k, op in enumerate(hist):
                if op == "R":
                    M = np.asarray(orb.monodromy, dtype=float)
                    Mref = ref(cur)
                    e = float(np.max(np.abs(M - Mref))) / (1.0 + float(np.max(np.abs(Mref))))
                    reads.append(round(cur / T0, 3))
                    if e > 1e-6:
                        key = "orbit_history/monodromy_not_of_current_period"
                        viol.setdefault(key, violation(key, "after the operations %s on one orbit object (period now %.6g) orbit.monodromy differs from the derivative of the flow over the current period by rel %.3e %s" % (
                            hist[:k + 1], cur, e, tag), e, 0.0, ("orbit_history", params)))
                elif op in periods:
                    orb.period = periods[op]
                    cur = periods[op]
                else:
                    orb.propagate(steps=200)
                    tr = orb.trajectory
                    tend = float(np.asarray(tr.times)[-1])
                    if abs(tend - cur) > 1e-9 * (1 + cur):
                        key = "orbit_history/trajectory_not_of_current_period"
                        viol.setdefault(key, violation(key, "after the operations %s the propagated trajectory ends at t=%.9g, the orbit's period is %.9g %s" % (hist[:k + 1], tend, cur, tag), tend, cur, ("orbit_history", params)))
            n += 1
            if len(set(reads)) > 1 or (reads and reads[-1] != 1.0):
                nt += 1
            outcomes.add(tuple(reads))
    return res(evals=n, nontrivial=nt, viol=list(viol.values()), sample={"tag": tag, "histories": n, "distinct_read_patterns": len(outcomes)})


KINDS = {"stm": k_stm, "orbit": k_orbit, "orbit_history": k_orbit_history}


def cases(tier, seed):
    o = seed_offsets(seed, 3, 0.02)
    out = []
    mus = [3.0e-6, 0.01215, 0.1]
    for mu in mus:
        g = (mu / 3.0) ** (1.0 / 3.0)
        states = [[1 - mu - g - 0.4 * g + o[0] * g, 0.1 * g, 0.2 * g, 0.1 * g, 0.3 * g * (1 + o[1]), -0.1 * g],
                  [0.3 + o[2], 0.4, 0.1, -0.2, 0.5, 0.15],
                  [-0.9, 0.1 + o[0], -0.05, 0.05, -0.2, 0.1]]
        methods = [["adaptive", 8, 200], ["adaptive", 5, 200], ["fixed", 8, 2001]]
        tfs = [0.3, 1.0, 2.5]
        if tier == "quick":
            for st in states:
                out.append(("stm", {"mu": mu, "states": [st], "tfs": tfs, "methods": methods, "fd": True}))
        else:
            for st in states:
                for tf in tfs:
                    out.append(("stm", {"mu": mu, "states": [st, (np.array(st) * np.array([1, -1, 1, -1, 1, -1])).tolist()], "tfs": [tf], "methods": methods, "fd": True}))
    for sysn in ([["earth", "moon"]] if tier == "quick" else [["earth", "moon"], 0.04]):
        for Ln in (1, 2):
            for fam, amps in (("halo_n", [0.05, 0.2]), ("halo_s", [0.2]), ("lyapunov", [0.01, 0.03])):
                for amp in amps:
                    out.append(("orbit", {"system": sysn, "family": fam, "point": Ln, "amp": amp}))
    for fam, Ln, amp in (("halo_n", 1, 0.2), ("lyapunov", 1, 0.01)) if tier == "quick" else (("halo_n", 1, 0.2), ("halo_s", 2, 0.2), ("lyapunov", 1, 0.01), ("lyapunov", 2, 0.03)):
        out.append(("orbit_history", {"system": ["earth", "moon"], "family": fam, "point": Ln, "amp": amp, "depth": 3 if tier == "quick" else 4}))
    return out
