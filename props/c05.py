"""C05 - a successful differential correction yields a genuinely periodic orbit; solver contract.

Solver half (devx): harness-owned residual maps with every evaluation logged; the space
(residual map x start lattice x tol x max_attempts x max_delta x stepper x analytic/FD Jacobian)
is enumerated completely with 0 deviations, and a sub-lattice with 1 and 2 injected exceptions at
every choice of evaluation indices among the first 12 evaluations.
Orbit half: families x points x mass ratios x amplitudes x tolerances; independent propagation
(scipy DOP853 on a harness-side field) over the reported period must close.
"""
import itertools
import math

import numpy as np

from engine.core import res, violation, seed_offsets

ID = "C05"
LEVEL = "fault_enumeration"
WORKERS = {"quick": 12, "thorough": 16}
RULE = ("solver statements again on a backend instance (and a per-process stepper factory) that solved another menu problem before; solver: complete product residual-map menu(11) x start lattice x tol{1e-6,1e-12} x max_attempts{1,3,25} x max_delta{None,1e-2,1} x stepper{plain,armijo} x "
        "jacobian{analytic,finite-difference}; fault injection: exceptions raised at every subset of size 1 and 2 of the first 12 residual evaluations on a sub-lattice; "
        "orbits: family{halo N,halo S,lyapunov,vertical} x point{L1,L2} x mu x amplitude ladder x tol; non-trivial = run performed >=1 Newton update; distinct = distinct configurations")
ASSUMPTIONS = [
    "returned => residual recomputed independently by the harness is < tol; a raise of any exception type is accepted as 'raises an error'",
    "iterates observed through the backend's own on_iteration notifications; their residual norms are recomputed by the harness",
    "orbit closure bound: |phi_T(x0)-x0| <= 1e-6 for tol <= 1e-10 (observed 2e-11..2e-9 on correct families)",
]

_L = {}


def worker_init():
    if _L:
        return
    from hiten.algorithms.corrector.backends.newton import _NewtonBackend
    from hiten.algorithms.corrector.stepping import make_armijo_stepper, make_plain_stepper
    from hiten.algorithms.corrector.types import CorrectorInput

    class LoggingNewton(_NewtonBackend):
        def on_iteration(self, k, x, r_norm):
            self.log.append((int(k), np.array(x, dtype=float), float(r_norm)))

    _L.update(Newton=LoggingNewton, armijo=make_armijo_stepper, plain=make_plain_stepper, CorrectorInput=CorrectorInput)


# ------------------------------------------------------------------ residual menu
def _menu():
    M = {}
    A1 = np.array([[2.0, 1.0], [-1.0, 3.0]])
    b1 = np.array([1.0, -2.0])
    M["linear_well"] = (lambda x: A1 @ x - b1, lambda x: A1.copy(), 2)
    A2 = np.array([[1.0, 1.0], [1.0, 1.0 + 1e-10]])
    M["linear_ill"] = (lambda x: A2 @ x - np.array([2.0, 2.0]), lambda x: A2.copy(), 2)
    M["quad1d"] = (lambda x: np.array([x[0] ** 2 - 2.0]), lambda x: np.array([[2.0 * x[0]]]), 1)
    M["circle_line"] = (lambda x: np.array([x[0] ** 2 + x[1] ** 2 - 4.0, x[0] - x[1]]), lambda x: np.array([[2 * x[0], 2 * x[1]], [1.0, -1.0]]), 2)
    M["rosenbrock_grad"] = (lambda x: np.array([-2 * (1 - x[0]) - 400 * x[0] * (x[1] - x[0] ** 2), 200 * (x[1] - x[0] ** 2)]),
                            lambda x: np.array([[2 - 400 * (x[1] - 3 * x[0] ** 2), -400 * x[0]], [-400 * x[0], 200.0]]), 2)
    M["singular_start"] = (lambda x: np.array([x[0] ** 2 - 1.0, x[1] ** 3 + x[1]]), lambda x: np.array([[2 * x[0], 0.0], [0.0, 3 * x[1] ** 2 + 1.0]]), 2)
    M["no_root"] = (lambda x: np.array([x[0] ** 2 + 1.0]), lambda x: np.array([[2.0 * x[0]]]), 1)
    M["under_2x3"] = (lambda x: np.array([x[0] + x[1] + x[2] - 1.0, x[0] - x[1] + 0.1 * x[2] ** 2]), lambda x: np.array([[1.0, 1.0, 1.0], [1.0, -1.0, 0.2 * x[2]]]), 3)
    M["over_3x2_consistent"] = (lambda x: np.array([x[0] - 1.0, x[1] - 2.0, x[0] * x[1] - 2.0]), lambda x: np.array([[1.0, 0.0], [0.0, 1.0], [x[1], x[0]]]), 2)
    M["over_3x2_inconsistent"] = (lambda x: np.array([x[0] - 1.0, x[1] - 2.0, x[0] + x[1] - 4.0]), lambda x: np.array([[1.0, 0.0], [0.0, 1.0], [1.0, 1.0]]), 2)
    M["nan_halfspace"] = (lambda x: np.array([math.sqrt(x[0]) - 1.0 if x[0] >= 0 else float("nan"), x[1] - 0.5]),
                          lambda x: np.array([[0.5 / math.sqrt(x[0]) if x[0] > 0 else float("nan"), 0.0], [0.0, 1.0]]), 2)
    M["coupled3"] = (lambda x: np.array([x[0] + 0.5 * math.sin(x[1]) - 1.0, x[1] + 0.3 * x[2] ** 2 - 0.5, x[2] - 0.2 * x[0] * x[1] - 0.1]),
                     lambda x: np.array([[1.0, 0.5 * math.cos(x[1]), 0.0], [0.0, 1.0, 0.6 * x[2]], [-0.2 * x[1], -0.2 * x[0], 1.0]]), 3)
    return M


class Residual:
    def __init__(self, fn, faults=()):
        self.fn, self.faults, self.n = fn, set(faults), 0
        self.calls = []

    def __call__(self, x):
        i = self.n
        self.n += 1
        if i in self.faults:
            self.calls.append((i, np.array(x, dtype=float), None))
            raise FloatingPointError("injected fault at evaluation %d" % i)
        r = np.asarray(self.fn(np.asarray(x, dtype=float)), dtype=float)
        self.calls.append((i, np.array(x, dtype=float), r.copy()))
        return r


def run_solver(cfg):
    """returns (violation list, outcome string, n_updates)"""
    fn, jac, n = _menu()[cfg["problem"]]
    resid = Residual(fn, cfg.get("faults", ()))
    if cfg.get("warm"):
        # reuse: one stepper factory per process and one backend instance that has already solved another problem (other dimension, other
        # tolerance, other step cap) -- every statement below must hold for the second request all the same
        fkey = "factory_" + cfg["stepper"]
        if fkey not in _L:
            _L[fkey] = _L["armijo"]() if cfg["stepper"] == "armijo" else _L["plain"]()
        be = _L["Newton"](stepper_factory=_L[fkey])
        be.log = []
        wfn, wjac, wn = _menu()[cfg["warm"]]
        try:
            be.run(request=_L["CorrectorInput"](initial_guess=np.array(_starts(wn, 0)[1], dtype=float), residual_fn=Residual(wfn, ()), jacobian_fn=wjac, norm_fn=None,
                                                max_attempts=4, tol=1e-3, max_delta=0.5, fd_step=1e-7))
        except Exception:
            pass
        be.log = []
    else:
        be = _L["Newton"](stepper_factory=(_L["armijo"]() if cfg["stepper"] == "armijo" else _L["plain"]()))
        be.log = []
    x0 = np.array(cfg["x0"], dtype=float)
    req = _L["CorrectorInput"](initial_guess=x0.copy(), residual_fn=resid, jacobian_fn=(jac if cfg["jac"] == "analytic" else None), norm_fn=None,
                               max_attempts=cfg["max_attempts"], tol=cfg["tol"], max_delta=cfg["max_delta"], fd_step=1e-7)
    viol = []
    tag = "problem=%s x0=%s tol=%g max_attempts=%d max_delta=%s stepper=%s jac=%s faults=%s%s" % (
        cfg["problem"], cfg["x0"], cfg["tol"], cfg["max_attempts"], cfg["max_delta"], cfg["stepper"], cfg["jac"], sorted(cfg.get("faults", ())),
        " on a backend instance that solved %s before" % cfg["warm"] if cfg.get("warm") else "")

    def V(key, what, obs=None, exp=None):
        viol.append(violation("solver/" + key, what + " [" + tag + "]", obs, exp, ("solver_one", cfg)))

    out = None
    exc = None
    try:
        out = be.run(request=req)
    except Exception as e:  # any error type counts as 'raises an error'
        exc = e
    tol = cfg["tol"]
    if out is not None:
        xr = np.asarray(out.x_corrected, dtype=float)
        rn = float(np.linalg.norm(fn(xr)))
        if not (rn < tol):
            V("returned_unconverged/" + cfg["stepper"], "solver returned x=%s with |R(x)|=%.3e, not below tol" % (xr.tolist(), rn), rn, tol)
        if not (abs(out.residual_norm - rn) <= 1e-9 * (1 + rn)):
            V("reported_residual", "reported residual_norm %.3e differs from |R(x_returned)|=%.3e" % (out.residual_norm, rn), out.residual_norm, rn)
    # iterates: (k, x_k, |r_k|) as notified; recompute norms independently
    its = be.log
    for (k, x, rnorm) in its:
        true = float(np.linalg.norm(fn(x)))
        if not (abs(true - rnorm) <= 1e-9 * (1 + abs(true))) and not (math.isnan(true) and math.isnan(rnorm)):
            V("iterate_norm", "notified residual norm %.3e at iterate %d differs from the recomputed %.3e" % (rnorm, k, true), rnorm, true)
            break
    md = cfg["max_delta"]
    for (k0, xa, ra), (k1, xb, rb) in zip(its, its[1:]):
        if md is not None and np.max(np.abs(xb - xa)) > md * (1 + 1e-12):
            V("step_cap/" + cfg["stepper"], "update %d -> %d has |dx|_inf = %.6g > max_delta = %g" % (k0, k1, float(np.max(np.abs(xb - xa))), md), float(np.max(np.abs(xb - xa))), md)
            break
        if cfg["stepper"] == "armijo" and not (rb <= ra * (1 + 1e-12)):
            V("armijo_monotone", "line search accepted an update that increases the residual norm: %.6e -> %.6e at iterate %d" % (ra, rb, k1), rb, ra)
            break
    if out is not None:
        nupd = max(0, len(its) - 1) if its and its[-1][2] < tol else len(its)
        if int(out.iterations) != nupd:
            V("iterations", "reported iterations=%d, observed %d Newton updates before the returned iterate" % (out.iterations, nupd), out.iterations, nupd)
        if its and np.max(np.abs(its[-1][1] - np.asarray(out.x_corrected))) > 0 and its[-1][2] < tol:
            V("returned_iterate", "returned x is not the converged iterate that was notified")
    outcome = "returned" if out is not None else type(exc).__name__
    return viol, outcome, max(0, len(its) - 1)


def _starts(n, seed):
    o = seed_offsets(seed, 3, 0.2)
    if n == 1:
        return [[v + o[0]] for v in (-3.0, -0.5, 0.0, 0.7, 4.0)]
    if n == 2:
        ax = (-2.0, 0.0, 0.3, 1.5, 4.0)
        return [[a + (o[0] if a else 0.0), b + (o[1] if b else 0.0)] for a in ax for b in ax]
    ax = (-1.0, 0.0, 2.0)
    return [[a + (o[0] if a else 0.0), b + (o[1] if b else 0.0), c + (o[2] if c else 0.0)] for a in ax for b in ax for c in ax]


def k_solver(params):
    prob = params["problem"]
    n = _menu()[prob][2]
    viol = {}
    cnt = 0
    nontriv = 0
    outcomes = {}
    for x0 in _starts(n, params["seed"]):
        for tol in (1e-6, 1e-12):
            for ma in (1, 3, 25):
                for md in (None, 1e-2, 1.0):
                    for stepper in ("plain", "armijo"):
                        for jac in ("analytic", "fd"):
                            cfg = {"problem": prob, "x0": x0, "tol": tol, "max_attempts": ma, "max_delta": md, "stepper": stepper, "jac": jac}
                            vs, oc, nupd = run_solver(cfg)
                            cnt += 1
                            if nupd >= 1:
                                nontriv += 1
                            outcomes[oc] = outcomes.get(oc, 0) + 1
                            for v in vs:
                                viol.setdefault(v["key"], v)
    return res(evals=cnt, nontrivial=nontriv, viol=list(viol.values()), stats={"solver_runs": cnt, **{"outcome_" + k: v for k, v in outcomes.items()}},
               sample={"problem": prob, "runs": cnt, "outcomes": outcomes})


def k_solver_reuse(params):
    prob = params["problem"]
    n = _menu()[prob][2]
    viol = {}
    cnt = nontriv = 0
    for warm in sorted(_menu()):
        if warm == prob:
            continue
        for x0 in _starts(n, params["seed"]):
            for md in (None, 1e-2):
                for stepper in ("plain", "armijo"):
                    for jac in ("analytic", "fd"):
                        cfg = {"problem": prob, "x0": x0, "tol": 1e-12, "max_attempts": 25, "max_delta": md, "stepper": stepper, "jac": jac, "warm": warm}
                        vs, oc, nupd = run_solver(cfg)
                        cnt += 1
                        nontriv += 1 if nupd >= 1 else 0
                        for v in vs:
                            v["key"] = v["key"].replace("solver/", "solver_reuse/", 1)
                            viol.setdefault(v["key"], v)
    return res(evals=cnt, nontrivial=nontriv, viol=list(viol.values()), stats={"solver_runs_on_reused_backend": cnt}, sample={"problem": prob, "runs": cnt})


def k_solver_faults(params):
    prob = params["problem"]
    n = _menu()[prob][2]
    viol = {}
    cnt = 0
    nontriv = 0
    outcomes = {}
    starts = _starts(n, params["seed"])
    starts = [starts[0], starts[len(starts) // 2], starts[-1]]
    fsets = [(i,) for i in range(12)]
    if params["d"] >= 2:
        fsets += list(itertools.combinations(range(12), 2))
    for x0 in starts:
        for ma in (3, 25):
            for md in (None, 1e-2, 1.0):
                for stepper in ("plain", "armijo"):
                    for jac in ("analytic", "fd"):
                        for fs in fsets:
                            cfg = {"problem": prob, "x0": x0, "tol": 1e-12, "max_attempts": ma, "max_delta": md, "stepper": stepper, "jac": jac, "faults": list(fs)}
                            vs, oc, nupd = run_solver(cfg)
                            cnt += 1
                            if nupd >= 1:
                                nontriv += 1
                            outcomes[oc] = outcomes.get(oc, 0) + 1
                            for v in vs:
                                viol.setdefault(v["key"], v)
    return res(evals=cnt, nontrivial=nontriv, viol=list(viol.values()), stats={"fault_runs": cnt, **{"fault_outcome_" + k: v for k, v in outcomes.items()}},
               sample={"problem": prob, "deviation_bound": params["d"], "runs": cnt, "outcomes": outcomes})


def k_solver_one(params):
    vs, oc, nupd = run_solver(params)
    return res(viol=vs, nontrivial=1)


# ------------------------------------------------------------------ orbits
def _field(mu):
    def f(t, s):
        x, y, z, vx, vy, vz = s
        r1 = math.sqrt((x + mu) ** 2 + y * y + z * z)
        r2 = math.sqrt((x - 1 + mu) ** 2 + y * y + z * z)
        return [vx, vy, vz, 2 * vy + x - (1 - mu) * (x + mu) / r1 ** 3 - mu * (x - 1 + mu) / r2 ** 3,
                -2 * vx + y - (1 - mu) * y / r1 ** 3 - mu * y / r2 ** 3, -(1 - mu) * z / r1 ** 3 - mu * z / r2 ** 3]
    return f


def make_orbit(system, fam, Ln, amp):
    from hiten.system.orbits import HaloOrbit, LyapunovOrbit, VerticalOrbit

    L = system.get_libration_point(Ln)
    if fam == "halo_n":
        return HaloOrbit(L, amplitude_z=amp, zenith="northern")
    if fam == "halo_s":
        return HaloOrbit(L, amplitude_z=amp, zenith="southern")
    if fam == "lyapunov":
        return LyapunovOrbit(L, amplitude_x=amp)
    if fam == "vertical":
        return VerticalOrbit(L, amplitude_z=amp)
    raise KeyError(fam)


def with_tol(orbit, tol):
    import dataclasses

    o = orbit.correction_options
    conv = dataclasses.replace(o.base.convergence, tol=tol)
    return dataclasses.replace(o, base=dataclasses.replace(o.base, convergence=conv))


def closure(mu, x0, T):
    from scipy.integrate import solve_ivp

    sol = solve_ivp(_field(mu), (0.0, T), np.asarray(x0, dtype=float), method="DOP853", rtol=1e-13, atol=1e-14)
    return float(np.max(np.abs(sol.y[:, -1] - np.asarray(x0, dtype=float))))


def k_orbit(params):
    from hiten.system.base import System

    mu_name = params["system"]
    system = System.from_bodies(*mu_name) if isinstance(mu_name, list) else System.from_mu(mu_name)
    mu = system.mu
    fam, Ln, amp, tol = params["family"], params["point"], params["amp"], params["tol"]
    viol = []
    tag = "family=%s L%d system=%s amplitude=%g tol=%g" % (fam, Ln, mu_name, amp, tol)
    try:
        orbit = make_orbit(system, fam, Ln, amp)
    except Exception as exc:
        return res(evals=1, nontrivial=0, sample={"tag": tag, "outcome": "seed rejected: %s" % type(exc).__name__}, stats={"orbit_seed_rejected": 1})
    if params.get("pre_tol"):
        # history: the same orbit object is first corrected to a loose tolerance, then (below) to the requested one; every statement is about
        # the outcome of the last correction
        tag += " after an earlier correct(tol=%g) on the same object" % params["pre_tol"]
        try:
            orbit.correct(options=with_tol(orbit, params["pre_tol"]))
        except Exception:
            pass
    before = (np.array(orbit.initial_state, dtype=float), orbit.period)
    try:
        result = orbit.correct(options=with_tol(orbit, tol))
    except Exception as exc:
        after = (np.array(orbit.initial_state, dtype=float), orbit.period)
        if np.max(np.abs(after[0] - before[0])) > 0 or after[1] != before[1]:
            viol.append(violation("orbit/state_changed_on_failure", "correct() raised %s but the orbit's state/period changed [%s]" % (type(exc).__name__, tag)))
        return res(evals=1, nontrivial=0, viol=viol, sample={"tag": tag, "outcome": "raised %s" % type(exc).__name__}, stats={"orbit_correct_raised": 1})
    x0 = np.array(orbit.initial_state, dtype=float)
    T = float(orbit.period)
    if not result.converged:
        viol.append(violation("orbit/returned_unconverged", "correct() returned with converged=False [%s]" % tag))
    if not (result.residual_norm < tol):
        viol.append(violation("orbit/residual", "correct() returned residual_norm=%.3e >= tol [%s]" % (result.residual_norm, tag), result.residual_norm, tol))
    if np.max(np.abs(np.asarray(result.x_corrected) - x0)) > 0:
        viol.append(violation("orbit/state_not_applied", "orbit.initial_state differs from the corrected state [%s]" % tag))
    if abs(T - 2 * result.half_period) > 1e-14:
        viol.append(violation("orbit/period_not_applied", "orbit.period != 2*half_period [%s]" % tag))
    # independent evaluation of the family's own constraints: propagate the returned state with the harness field to the first crossing of the
    # family's section and read the constrained components there
    try:
        cfg = orbit.correction_config
        ridx = [int(getattr(i, "value", i)) for i in cfg.residual_indices]
        target = np.asarray(cfg.target, dtype=float)
        plane = next(c.cell_contents for c in (cfg.event_func.__closure__ or ()) if hasattr(c.cell_contents, "normal"))
        nvec, noff = np.asarray(plane.normal, dtype=float), float(plane.offset)

        def gfun(t, y):
            return float(nvec @ np.asarray(y, dtype=float) - noff)
        from scipy.integrate import solve_ivp

        def ev(t, y):
            return float(gfun(float(t), np.asarray(y, dtype=float))) if t > 1e-3 else 1.0 * np.sign(float(gfun(1e-3, np.asarray(y, dtype=float))) or 1.0)
        sol = solve_ivp(_field(mu), (0.0, 1.2 * T), x0, method="DOP853", rtol=1e-13, atol=1e-14, dense_output=True)
        ts = np.linspace(1e-3, 1.2 * T, 4000)
        gs = np.array([float(gfun(float(t), sol.sol(t))) for t in ts])
        k = next((i for i in range(len(ts) - 1) if gs[i] * gs[i + 1] < 0), None)
        if k is not None:
            from scipy.optimize import brentq
            tc = brentq(lambda t: float(gfun(float(t), sol.sol(t))), ts[k], ts[k + 1], xtol=1e-14)
            yc = sol.sol(tc)
            rind = float(np.linalg.norm(yc[ridx] - target))
            if rind > max(1e-8, 1e4 * tol):
                viol.append(violation("orbit/independent_residual/%s" % fam, "correction reported residual %.1e but the constrained components %s at the first section crossing (t=%.6f) of the returned state are %s (target %s): independent residual %.3e [%s]" % (
                    result.residual_norm, ridx, tc, yc[ridx].tolist(), target.tolist(), rind, tag), rind, tol))
            if abs(2 * tc - T) > 1e-7 * max(1.0, T):
                viol.append(violation("orbit/period_vs_crossing/%s" % fam, "reported period %.9f is not twice the first section-crossing time %.9f of the returned state [%s]" % (T, tc, tag), T, 2 * tc))
    except Exception as exc:
        raise RuntimeError("independent residual evaluation failed: %s: %s" % (type(exc).__name__, exc))
    c = closure(mu, x0, T)
    bound = max(1e-6, 1e4 * tol)
    if c > bound:
        c2 = closure(mu, x0, 2 * T)
        viol.append(violation("orbit/closure/%s" % fam, "correction reported success (residual %.1e) but the state does not return after the reported period T=%.6f: |phi_T(x0)-x0| = %.3e (after 2T: %.3e) [%s]" % (
            result.residual_norm, T, c, c2, tag), c, bound))
    return res(evals=1, nontrivial=1, viol=viol, stats={"orbits_corrected": 1, "max_closure": c if c <= bound else 0.0},
               sample={"tag": tag, "iterations": int(result.iterations), "residual": float(result.residual_norm), "period": T, "closure": c})


KINDS = {"solver_reuse": k_solver_reuse, "solver": k_solver, "solver_faults": k_solver_faults, "solver_one": k_solver_one, "orbit": k_orbit}


def cases(tier, seed):
    out = []
    for prob in _menu():
        out.append(("solver", {"problem": prob, "seed": seed}))
        out.append(("solver_faults", {"problem": prob, "seed": seed, "d": 1 if tier == "quick" else 2}))
        out.append(("solver_reuse", {"problem": prob, "seed": seed}))
    o = seed_offsets(seed, 2, 0.1)
    systems = [["earth", "moon"]] + ([0.04] if tier == "quick" else [0.04, ["sun", "earth"]])
    for sysn in systems:
        for Ln in (1, 2):
            amps = {"halo_n": [0.05, 0.2 * (1 + o[0])], "halo_s": [0.05, 0.2 * (1 + o[0])], "lyapunov": [0.01, 0.03 * (1 + o[1])], "vertical": [0.02, 0.05]}
            if tier != "quick":
                amps = {"halo_n": [0.02, 0.05, 0.1, 0.2 * (1 + o[0]), 0.3], "halo_s": [0.02, 0.05, 0.1, 0.2 * (1 + o[0]), 0.3], "lyapunov": [0.005, 0.01, 0.03 * (1 + o[1]), 0.05], "vertical": [0.01, 0.02, 0.05, 0.1]}
            for fam, al in amps.items():
                for amp in al:
                    if isinstance(sysn, list) and sysn[0] == "sun":
                        amp = amp * 0.05
                    for tol in ((1e-12,) if tier == "quick" else (1e-10, 1e-12)):
                        out.append(("orbit", {"system": sysn, "family": fam, "point": Ln, "amp": amp, "tol": tol}))
                    if fam != "vertical" and (tier != "quick" or amp == al[0]):
                        for pre in ((1e-5,) if tier == "quick" else (1e-4, 1e-5, 1e-7)):
                            out.append(("orbit", {"system": sysn, "family": fam, "point": Ln, "amp": amp, "tol": 1e-12, "pre_tol": pre}))
    return out
