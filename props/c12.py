"""C12 - invariant-manifold seeds lie on the true stable / unstable Floquet directions of the orbit.

Lattice: orbits {halo S, halo N, planar Lyapunov} x {L1, L2} x amplitudes x stable{T,F} x
direction{positive, negative} x phase fractions k/8 (thorough k/16) x displacement{1e-6, 1e-4} x
method {adaptive 8, fixed 8}.
Oracle: reference monodromy *at the base point* x(tau) (scipy DOP853 on harness-side variational
equations): the seed minus the base point must be parallel to its eigenvector with multiplier inside
(stable) / outside (unstable) the unit circle, with position norm = displacement; positive/negative
seeds are mirror images; stable branches have non-positive decreasing times, unstable ones
non-negative increasing; the reference Jacobi constant is kept along every retained trajectory.
"""
import math

import numpy as np

from engine.core import res, violation, seed_offsets

ID = "C12"
LEVEL = "exploration"
WORKERS = {"quick": 12, "thorough": 16}
RULE = ("complete product orbit menu x stable{T,F} x direction{+,-} x phase fractions x displacement x method; every retained trajectory of Manifold.compute is checked; "
        "non-trivial = seed compared with the reference Floquet direction at its own base point; distinct = (orbit, stable, direction, fraction, displacement, method)")
ASSUMPTIONS = [
    "base point of a seed = the point of the reference periodic orbit closest to (seed - displacement * direction); the angle test is done there with the reference monodromy at that point",
    "angle tolerance 1e-3 rad (observed 0 .. 1e-5 on correct branches; the defect F9 gave 0.1 .. 0.3 rad); position-norm of the offset = displacement within 1e-6 relative",
    "energy: reference Jacobi constant along each retained trajectory within the configured energy_tol (default 1e-6 relative)",
]

_L = {}


def worker_init():
    if _L:
        return
    from hiten.system.base import System
    from hiten.system.manifold import Manifold

    _L.update(System=System, Manifold=Manifold)


def _jacobi(s, mu):
    x, y, z, vx, vy, vz = s
    r1 = math.sqrt((x + mu) ** 2 + y * y + z * z)
    r2 = math.sqrt((x - 1 + mu) ** 2 + y * y + z * z)
    return x * x + y * y + 2 * ((1 - mu) / r1 + mu / r2) - (vx * vx + vy * vy + vz * vz)


class _Ctx:
    """reference data of one (corrected) periodic orbit in its *current* state, and the per-trajectory oracle"""

    def __init__(self, mu, orbit):
        from props.c03 import _field_jac
        from scipy.integrate import solve_ivp

        self.mu = mu
        self.x0 = np.array(orbit.initial_state, dtype=float)
        self.T = float(orbit.period)
        f, jac = _field_jac(mu)
        # dense reference orbit
        self.dense = solve_ivp(lambda t, s: f(s), (0.0, self.T), self.x0, method="DOP853", rtol=1e-13, atol=1e-14, dense_output=True)
        self.ts = np.linspace(0.0, self.T, 4001)
        # the library's base points come from its own propagation of an orbit that closes only to ~1e-9 and whose errors grow with the unstable multiplier:
        # a base-point mismatch m changes the measured angle by ~ m / displacement
        self.mismatch = float(np.max(np.abs(self.dense.sol(self.T) - self.x0))) + 2e-9
        self.curve = np.array([self.dense.sol(t) for t in self.ts])
        self.ref_cache = {}
        self.mx_angle = 0.0

    def floquet(self, tq):
        from props.c03 import ref_stm
        T = self.T
        key = round((tq % T) / T * 1e7)
        if key not in self.ref_cache:
            _, Mt = ref_stm(self.mu, self.dense.sol(tq % T), T)
            w_, V_ = np.linalg.eig(Mt)
            self.ref_cache[key] = (w_, V_)
        return self.ref_cache[key]

    def check_traj(self, tr, stable, disp, V, tag, energy_tol=1e-6):
        """returns 1 if the seed direction was compared (non-trivial), else 0"""
        from scipy.optimize import minimize_scalar
        mu, T, dense, ts, curve, mismatch = self.mu, self.T, self.dense, self.ts, self.curve, self.mismatch
        times = np.asarray(tr.times, dtype=float)
        states = np.asarray(tr.states, dtype=float)
        seed = states[0]
        # time direction
        if stable and (np.any(times > 1e-15) or np.any(np.diff(times) >= 0)):
            V("times", "stable branch is not integrated backward (times %s ... %s) [%s]" % (times[:2].tolist(), times[-1:].tolist(), tag), times[:3])
        if (not stable) and (np.any(times < -1e-15) or np.any(np.diff(times) <= 0)):
            V("times", "unstable branch is not integrated forward (times %s ... %s) [%s]" % (times[:2].tolist(), times[-1:].tolist(), tag), times[:3])
        # energy along the retained trajectory (reference Jacobi constant, every sample, both signs)
        C = np.array([_jacobi(s_, mu) for s_ in states])
        dC = float(np.max(np.abs(C - C[0])) / abs(C[0]))
        if dC > energy_tol * (1 + 1e-6) + 1e-13:
            k_ = int(np.argmax(np.abs(C - C[0])))
            V("energy", "reference Jacobi constant deviates by %+.3e (relative) from its seed value along a retained trajectory, configured energy_tol %.1e [%s]" % (
                float((C[k_] - C[0]) / abs(C[0])), energy_tol, tag), dC, energy_tol)
        # base point.  The statement allows any point of the orbit as base, so the base is found by a 1-D search along the reference
        # orbit: tau* minimises the angle between (seed - x(tau)) and the reference Floquet direction, starting from the closest point
        # (moving the base along the orbit only changes the offset by a multiple of the flow direction).  Monodromies are cached per phase.
        d2 = np.sum((curve - seed) ** 2, axis=1)
        k = int(np.argmin(d2))
        tau = float(ts[k])
        ang = None
        for _it in range(2):
            w, Vv = self.floquet(tau)
            real = [i for i in range(6) if abs(w[i].imag) < 1e-8 * max(1.0, abs(w[i]))]
            cand = [i for i in real if (abs(w[i]) < 1 - 1e-3 if stable else abs(w[i]) > 1 + 1e-3)]
            if not cand:
                break
            i_sel = min(cand, key=lambda i: abs(w[i])) if stable else max(cand, key=lambda i: abs(w[i]))
            v = np.real(Vv[:, i_sel])
            v = v / np.linalg.norm(v)

            def angle_at(tq):
                o_ = seed - dense.sol(tq % T)
                return math.acos(min(1.0, abs(float(o_ @ v)) / max(float(np.linalg.norm(o_)), 1e-300)))
            win = 2.5 * T / 1999.0
            r = minimize_scalar(angle_at, bounds=(tau - win, tau + win), method="bounded", options={"xatol": 1e-12 * T})
            tau = float(r.x)
            ang = float(r.fun)
        if ang is None:
            return 0
        base = dense.sol(tau % T)
        off = seed - base
        pn = float(np.linalg.norm(off[:3]))
        if abs(pn - disp) > 2e-3 * disp + 3 * mismatch:
            V("displacement", "seed is %.6e from its base point in position, configured displacement %.6e (phase tau/T=%.4f) [%s]" % (pn, disp, tau / T, tag), pn, disp)
        u = off / np.linalg.norm(off)
        self.mx_angle = max(self.mx_angle, ang)
        if ang > 1e-3 + 5 * mismatch / disp:
            # angle to the *other* hyperbolic direction, for the diagnosis
            other = [i for i in real if (abs(w[i]) > 1 + 1e-3 if stable else abs(w[i]) < 1 - 1e-3)]
            a2 = None
            if other:
                v2 = np.real(Vv[:, other[0]]); v2 = v2 / np.linalg.norm(v2)
                a2 = math.acos(min(1.0, abs(float(u @ v2))))
            V("direction", "seed offset is %.4f rad (%.1f deg) away from the true %s Floquet direction at its base point (phase %.4f, multiplier %.4g; angle to the other hyperbolic direction %s) [%s]" % (
                ang, math.degrees(ang), "stable" if stable else "unstable", tau / T, abs(w[i_sel]), "%.4f" % a2 if a2 is not None else "n/a", tag), ang, 0.0)
        return 1


def _make(params):
    from props.c05 import make_orbit
    sysn = params["system"]
    system = _L["System"].from_bodies(*sysn) if isinstance(sysn, list) else _L["System"].from_mu(sysn)
    fam, Ln, amp = params["family"], params["point"], params["amp"]
    tag0 = "family=%s L%d system=%s amplitude=%g" % (fam, Ln, sysn, amp)
    orbit = make_orbit(system, fam, Ln, amp)
    return system, float(system.mu), orbit, tag0


def k_orbit(params):
    from scipy.optimize import minimize_scalar
    try:
        system, mu, orbit, tag0 = _make(params)
        orbit.correct()
        orbit.propagate(steps=1000)
    except Exception as exc:
        return res(evals=1, nontrivial=0, sample={"tag": "%s" % params, "outcome": "orbit rejected: %s" % type(exc).__name__})
    viol = {}
    ctx = _Ctx(mu, orbit)
    T, dense, ts, curve = ctx.T, ctx.dense, ctx.ts, ctx.curve
    n = 0
    nontriv = 0
    for stable in (True, False):
        for direction in ("positive", "negative"):
            for disp in params["displacements"]:
                for method, order in params["methods"]:
                    man = _L["Manifold"](orbit, stable=stable, direction=direction)
                    tag = "%s stable=%s direction=%s displacement=%g method=%s" % (tag0, stable, direction, disp, method)

                    def V(key, what, obs=None, exp=None, _s=stable):
                        k2 = "%s/%s" % (key, "stable" if _s else "unstable")
                        viol.setdefault(k2, violation(k2, what, obs, exp))
                    try:
                        man.compute(step=params["step"], integration_fraction=params["int_frac"], displacement=disp, method=method, order=order, dt=params.get("dt", 1e-2), show_progress=False)
                        trajs = man.trajectories
                    except Exception as exc:
                        V("raises", "Manifold.compute raised %s: %s [%s]" % (type(exc).__name__, str(exc)[:120], tag))
                        continue
                    if not trajs:
                        V("empty", "no trajectory retained [%s]" % tag)
                        continue
                    for tr in trajs:
                        n += 1
                        nontriv += ctx.check_traj(tr, stable, disp, V, tag)
    # mirror images
    for stable in (True, False):
        try:
            mp = _L["Manifold"](orbit, stable=stable, direction="positive")
            mn = _L["Manifold"](orbit, stable=stable, direction="negative")
            kw = dict(step=params["step"], integration_fraction=0.05, displacement=params["displacements"][0], method="adaptive", order=8, dt=1e-2, show_progress=False)
            mp.compute(**kw); mn.compute(**kw)
            sp = np.array([np.asarray(t.states)[0] for t in mp.trajectories])
            sn_ = np.array([np.asarray(t.states)[0] for t in mn.trajectories])
            if sp.shape == sn_.shape and len(sp):
                mid = 0.5 * (sp + sn_)

                def dist_to_orbit(m):
                    k = int(np.argmin(np.sum((curve - m) ** 2, axis=1)))
                    r = minimize_scalar(lambda t: float(np.sum((dense.sol(min(max(t, 0.0), T)) - m) ** 2)), bounds=(ts[max(k - 1, 0)], ts[min(k + 1, len(ts) - 1)]), method="bounded", options={"xatol": 1e-13})
                    return math.sqrt(max(float(r.fun), 0.0))
                dmid = np.array([dist_to_orbit(m) for m in mid])
                n += 1
                if float(np.max(dmid)) > 1e-3 * params["displacements"][0] + 5e-7:
                    k2 = "mirror/%s" % ("stable" if stable else "unstable")
                    viol.setdefault(k2, violation(k2, "positive and negative seeds are not mirror images about the orbit: midpoints are up to %.3e off the orbit [%s]" % (float(np.max(dmid)), tag0), float(np.max(dmid)), 0.0))
        except Exception:
            pass
    return res(evals=n, nontrivial=nontriv, viol=list(viol.values()), stats={"max_angle_rad": ctx.mx_angle, "seeds_checked": nontriv},
               sample={"tag": tag0, "seeds_checked": nontriv, "max_angle_rad": ctx.mx_angle})


ARGSETS = {"A": dict(step=0.25, displacement=1e-6), "B": dict(step=0.25, displacement=1e-4), "C": dict(step=0.125, displacement=1e-6)}


def k_history(params):
    """(i) every ordered pair, and every triple (a, b, a), of compute() calls with argument sets {A, B, C} on one Manifold object: the seeds present afterwards must satisfy
    the statement for the arguments of the *last* call; (ii) the orbit is re-corrected in place (loose, then tight tolerance) between two
    Manifold objects: the second manifold's seeds must belong to the orbit as it is now"""
    import dataclasses
    try:
        system, mu, orbit, tag0 = _make(params)
        orbit.correct()
        orbit.propagate(steps=1000)
    except Exception as exc:
        return res(evals=1, nontrivial=0, sample={"tag": "%s" % params, "outcome": "orbit rejected: %s" % type(exc).__name__})
    viol = {}
    n = nt = 0
    ctx = _Ctx(mu, orbit)
    for stable in (True, False):
        seqs = [(a, b) for a in sorted(ARGSETS) for b in sorted(ARGSETS)] + [(a, b, a) for a in sorted(ARGSETS) for b in sorted(ARGSETS) if a != b]
        for seq in seqs:
                second = seq[-1]
                man = _L["Manifold"](orbit, stable=stable, direction="positive")
                tag = "%s stable=%s: compute() with the argument sets %s in turn on the same Manifold object" % (tag0, stable, [ARGSETS[k] for k in seq])

                def V(key, what, obs=None, exp=None, _s=stable):
                    k2 = "history/same_object/%s/%s" % (key, "stable" if _s else "unstable")
                    viol.setdefault(k2, violation(k2, what, obs, exp))
                try:
                    for k in seq:
                        man.compute(integration_fraction=0.05, dt=1e-2, show_progress=False, **ARGSETS[k])
                    trajs = man.trajectories
                except Exception as exc:
                    V("raises", "compute raised %s: %s [%s]" % (type(exc).__name__, str(exc)[:120], tag))
                    continue
                want = int(round(1.0 / ARGSETS[second]["step"]))
                if len(trajs) != want:
                    V("count", "%d trajectories present, the last call asked for %d phase fractions [%s]" % (len(trajs), want, tag), len(trajs), want)
                for tr in trajs:
                    n += 1
                    nt += ctx.check_traj(tr, stable, ARGSETS[second]["displacement"], V, tag)
    # (ii) orbit changed in place between two manifolds
    try:
        system, mu, orbit2, tag0 = _make(params)
        o = orbit2.correction_options
        loose = dataclasses.replace(o, base=dataclasses.replace(o.base, convergence=dataclasses.replace(o.base.convergence, tol=1e-4)))
        orbit2.correct(options=loose)
        x_loose = np.array(orbit2.initial_state, dtype=float)
        for stable in (True, False):
            m1 = _L["Manifold"](orbit2, stable=stable, direction="positive")
            m1.compute(integration_fraction=0.05, dt=1e-2, show_progress=False, **ARGSETS["A"])
        orbit2.correct()
        x_tight = np.array(orbit2.initial_state, dtype=float)
        moved = float(np.max(np.abs(x_tight - x_loose)))
        ctx2 = _Ctx(mu, orbit2)
        for stable in (True, False):
            m2 = _L["Manifold"](orbit2, stable=stable, direction="positive")
            m2.compute(integration_fraction=0.05, dt=1e-2, show_progress=False, **ARGSETS["A"])
            tag = "%s stable=%s: manifold of an orbit that was re-corrected in place (state moved by %.2e) after an earlier manifold of it had been computed" % (tag0, stable, moved)

            def V(key, what, obs=None, exp=None, _s=stable):
                k2 = "history/orbit_changed/%s/%s" % (key, "stable" if _s else "unstable")
                viol.setdefault(k2, violation(k2, what, obs, exp))
            for tr in m2.trajectories:
                n += 1
                got = ctx2.check_traj(tr, stable, ARGSETS["A"]["displacement"], V, tag)
                nt += got if moved > 1e-8 else 0
    except Exception as exc:
        viol.setdefault("history/orbit_changed/raises", violation("history/orbit_changed/raises", "%s: %s [%s]" % (type(exc).__name__, str(exc)[:160], params)))
    return res(evals=n, nontrivial=nt, viol=list(viol.values()), sample={"tag": tag0, "seeds_checked": nt})


def k_energy_filter(params):
    """coarse fixed-step integration with tolerances around the actual drift: whatever is retained must respect the configured tolerance (both signs)"""
    try:
        system, mu, orbit, tag0 = _make(params)
        orbit.correct()
        orbit.propagate(steps=1000)
    except Exception as exc:
        return res(evals=1, nontrivial=0, sample={"tag": "%s" % params, "outcome": "orbit rejected: %s" % type(exc).__name__})
    viol = {}
    n = 0
    kept = {}
    total = int(round(1.0 / params["step"]))
    for stable in (True, False):
        for direction in ("positive", "negative"):
            for tol in params["tols"]:
                man = _L["Manifold"](orbit, stable=stable, direction=direction)
                tag = "%s stable=%s direction=%s method=fixed order=%d dt=%g energy_tol=%g" % (tag0, stable, direction, params["order"], params["dt"], tol)

                def V(key, what, obs=None, exp=None, _s=stable):
                    k2 = "energy_filter/%s/%s" % (key, "stable" if _s else "unstable")
                    viol.setdefault(k2, violation(k2, what, obs, exp))
                try:
                    man.compute(step=params["step"], integration_fraction=params["int_frac"], displacement=1e-6, method="fixed", order=params["order"], dt=params["dt"], energy_tol=tol, show_progress=False)
                    trajs = man.trajectories
                except Exception as exc:
                    V("raises", "compute raised %s: %s [%s]" % (type(exc).__name__, str(exc)[:120], tag))
                    continue
                kept[tol] = kept.get(tol, 0) + len(trajs)
                for tr in trajs:
                    n += 1
                    states = np.asarray(tr.states, dtype=float)
                    C = np.array([_jacobi(s_, mu) for s_ in states])
                    dev = (C - C[0]) / abs(C[0])
                    if float(np.max(np.abs(dev))) > tol * (1 + 1e-6) + 1e-13:
                        V("retained_beyond_tolerance", "a retained trajectory deviates by %+.3e / %+.3e (relative Jacobi constant, min / max) from its seed value; configured energy_tol %.1e [%s]" % (
                            float(np.min(dev)), float(np.max(dev)), tol, tag), float(np.max(np.abs(dev))), tol)
    partial = sum(1 for t, k in kept.items() if 0 < k < 4 * total)
    return res(evals=n, nontrivial=n if partial else 0, viol=list(viol.values()), stats={"tolerances_that_filter_some_but_not_all": partial},
               sample={"tag": tag0, "retained_per_tolerance": {"%g" % t: k for t, k in kept.items()}, "branches_per_tolerance": 4 * total})


KINDS = {"orbit": k_orbit, "history": k_history, "energy_filter": k_energy_filter}


def cases(tier, seed):
    o = seed_offsets(seed, 1, 0.1)
    out = []
    systems = [["earth", "moon"]] if tier == "quick" else [["earth", "moon"], 0.04]
    for sysn in systems:
        for Ln in (1, 2):
            for fam, amps in (("halo_s", [0.2 * (1 + o[0])]), ("halo_n", [0.05]), ("lyapunov", [0.03])):
                for amp in amps:
                    out.append(("orbit", {"system": sysn, "family": fam, "point": Ln, "amp": amp, "step": 0.125 if tier == "quick" else 0.0625, "int_frac": 0.2,
                                          "displacements": [1e-6, 1e-4], "methods": [["adaptive", 8]] if tier == "quick" else [["adaptive", 8], ["fixed", 8]]}))
    hist = [("halo_s", 1, 0.2), ("lyapunov", 2, 0.03)] if tier == "quick" else [("halo_s", 1, 0.2), ("halo_n", 2, 0.05), ("lyapunov", 1, 0.03), ("lyapunov", 2, 0.03)]
    for fam, Ln, amp in hist:
        out.append(("history", {"system": ["earth", "moon"], "family": fam, "point": Ln, "amp": amp}))
    for fam, Ln, amp in hist:
        for order, dt in ((4, 0.02), (4, 0.01)) if tier == "quick" else ((4, 0.02), (4, 0.01), (6, 0.04)):
            out.append(("energy_filter", {"system": ["earth", "moon"], "family": fam, "point": Ln, "amp": amp, "order": order, "dt": dt, "step": 0.125, "int_frac": 0.4,
                                          "tols": [1e-8, 3e-9, 1e-9, 7e-10, 5e-10, 3e-10, 2e-10, 1.5e-10, 1e-10, 5e-11, 1e-11]}))
    return out
