"""C09 - centre-manifold points map to synodic states consistently in position and energy.

Lattice: systems x {L1,L2} x degree N x all 80 non-zero directions of {-1,0,1}^4 in (q2,p2,q3,p3)
x radius ladder; 2-D section points: section coordinate {q2,p2,q3,p3} x energy ladder x plane lattice.
"""
import itertools
import math

import numpy as np

from engine.core import res, violation, seed_offsets

ID = "C09"
LEVEL = "exploration"
WORKERS = {"quick": 12, "thorough": 16}
RULE = ("every sequence of <= 3 operations {to_synodic, to_cm, degree:=4, degree:=6, 2-D conversion} on one CenterManifold followed by a comparison of its conversions with a freshly built manifold of the current degree; "
        "CenterManifoldMap: computed section A x requested section B (all 16 pairs + nothing computed); complete product system x {L1,L2} x N x 80 directions of {-1,0,1}^4 x 5-rung radius ladder for the round trip and the energy identity; "
        "4 section coordinates x 3x3 plane lattice x energy ladder for the 2-D conversion; non-trivial = ladder with >= 2 halvings above the floor; distinct = (system, point, N, direction | section point)")
ASSUMPTIONS = [
    "reference energy E = v^2/2 - (x^2+y^2)/2 - (1-mu)/r1 - mu/r2 evaluated at the returned synodic state; E_L at the libration point",
    "radius r0 = 0.12 in centre-manifold coordinates; exponent = median of the last pairwise ratios above the rounding floor, threshold N+1-0.75",
]

_L = {}


def worker_init():
    if _L:
        return
    from hiten.system.base import System
    from hiten.system.center import CenterManifold

    _L.update(System=System, CM=CenterManifold)


def E_ref(s, mu):
    x, y, z, vx, vy, vz = s
    r1 = math.sqrt((x + mu) ** 2 + y * y + z * z)
    r2 = math.sqrt((x - 1 + mu) ** 2 + y * y + z * z)
    return 0.5 * (vx * vx + vy * vy + vz * vz) - 0.5 * (x * x + y * y) - (1 - mu) / r1 - mu / r2


def _slope(errs, floor):
    m = 0
    while m + 1 < len(errs) and errs[m] > floor and errs[m + 1] > floor:
        m += 1
    if m == 0:
        return 0, None
    pairs = [math.log2(errs[i] / errs[i + 1]) for i in range(m)]
    tail = sorted(pairs[-3:])
    return m, tail[len(tail) // 2]


def _system(entry):
    System = _L["System"]
    return System.from_bodies(*entry) if isinstance(entry, list) else System.from_mu(entry)


def k_cm(params):
    system = _system(params["system"])
    mu = float(system.mu)
    Ln, N = params["point"], params["N"]
    pt = system.get_libration_point(Ln)
    cm = _L["CM"](pt, N)
    H = cm.hamiltonian(N)
    # get_lie_expansions recomputes the (deterministic) Lie series on every conversion (~0.15 s each); memoise it per (inverse, tol)
    # on this pipeline instance so that the real to_synodic / to_cm chain is exercised at lattice scale
    pipe = cm.dynamics.pipeline
    _orig = pipe.get_lie_expansions
    _memo = {}

    def _cached(inverse=False, tol=1e-16):
        key = (bool(inverse), float(tol))
        if key not in _memo:
            _memo[key] = _orig(inverse=inverse, tol=tol)
        return _memo[key]
    pipe.get_lie_expansions = _cached
    if cm.dynamics.pipeline is not pipe:
        raise RuntimeError("pipeline instance is not stable; memoisation would not take effect")
    gamma = float(pt.dynamics.gamma)
    pos = np.asarray(pt.position, dtype=float)
    EL = E_ref([pos[0], pos[1], pos[2], 0, 0, 0], mu)
    tag = "system=%s L%d N=%d" % (params["system"], Ln, N)
    viol = {}

    def V(key, what, obs=None, exp=None):
        viol.setdefault(key, violation(key, what + " [%s]" % tag, obs, exp))

    def Hcm(p4):
        return complex(H(np.array([0.0, p4[0], p4[2], 0.0, p4[1], p4[3]]))).real

    n = 0
    nontriv = 0
    stats = {}
    r0 = params["r0"]
    w = np.array([1.0, 0.85, 0.7, 0.9])
    nr = params.get("rungs", 5)
    for d in itertools.product((-1, 0, 1), repeat=4):
        if not any(d):
            continue
        if params.get("dirs") == "axes_corners" and not (sum(1 for v in d if v) == 1 or (all(d) and (d[0] * d[1] * d[2] * d[3] > 0))):
            continue   # quick tier: 8 axis directions + 8 corners (each conversion recomputes the Lie series, ~0.13 s)
        u = np.array(d, dtype=float) * w
        u = u / np.linalg.norm(u)
        eR, eE = [], []
        for k in range(nr):
            p = r0 * 2.0 ** (-k) * u
            s = np.asarray(cm.to_synodic(p), dtype=float)
            back = np.asarray(cm.to_cm(s), dtype=float)
            eR.append(float(np.max(np.abs(back - p))))
            eE.append(abs((E_ref(s, mu) - EL) / gamma ** 2 - Hcm(p)))
        n += 2   # two ladders (round trip, energy) per direction
        efloor = 200 * 2.2e-16 * abs(EL) / gamma ** 2     # rounding of the synodic energy difference, amplified by 1/gamma^2
        for name, errs, floor in (("roundtrip", eR, 1e-14), ("energy", eE, efloor)):
            m, sl = _slope(errs, floor)
            if m >= 2:
                nontriv += 1
                stats["min_margin_" + name] = min(stats.get("min_margin_" + name, 99.0), sl - (N + 1))
                if sl < N + 1 - 0.75:
                    V("cm4d/%s" % name, "%s discrepancy shrinks with exponent %.2f < N+1=%d along (q2,p2,q3,p3) direction %s: %s" % (name, sl, N + 1, np.round(u, 2).tolist(), ["%.2e" % e for e in errs]), errs, N + 1)
    # 2-D section points at prescribed energy
    idx = {"q2": 0, "p2": 1, "q3": 2, "p3": 3}
    plane = {"q2": (2, 3), "p2": (2, 3), "q3": (0, 1), "p3": (0, 1)}
    h0 = params["h0"]
    for sec in ("q3", "p3", "q2", "p2"):
        for a in (-1, 0, 1):
            for b in (-1, 0, 1):
                if params.get("dirs") == "axes_corners" and (a, b) in ((0, -1), (-1, 0), (1, -1), (-1, 1)):
                    continue
                n += 4   # four ladders per section point
                eS, eH, eP, eE = [], [], [], []
                ok = True
                for k in range(4):
                    hk = h0 * 4.0 ** (-k)
                    # plane point well inside the energy level: radius ~ 0.35 sqrt(h/omega)
                    rr = 0.35 * math.sqrt(hk)
                    pt2 = np.array([a * rr, b * rr * 0.8])
                    try:
                        s = np.asarray(cm.to_synodic(pt2, energy=hk, section_coord=sec), dtype=float)
                    except Exception as exc:
                        ok = False
                        stats["section_points_rejected"] = stats.get("section_points_rejected", 0) + 1
                        break
                    p4 = np.asarray(cm.to_cm(s), dtype=float)
                    eS.append(abs(p4[idx[sec]]))
                    eH.append(abs(Hcm(p4) - hk))
                    eP.append(float(np.max(np.abs(p4[list(plane[sec])] - pt2))))
                    eE.append(abs((E_ref(s, mu) - EL) / gamma ** 2 - hk))
                if not ok:
                    continue
                # r halves per rung (h quarters): same exponents as above in r
                efloor = 200 * 2.2e-16 * abs(EL) / gamma ** 2
                for name, errs in (("on_section", eS), ("on_energy_level", eH), ("plane_coordinates", eP), ("reference_energy", eE)):
                    m, sl = _slope(errs, efloor if name == "reference_energy" else 3e-14)
                    if m >= 2:
                        nontriv += 1
                        if sl < N + 1 - 0.75 - 0.5:
                            V("section2d/%s/%s" % (name, sec), "2-D section point (%d,%d) on %s=0 at energy h: %s discrepancy shrinks with exponent %.2f (in r ~ sqrt(h)) < N+1=%d: %s" % (
                                a, b, sec, name, sl, N + 1, ["%.2e" % e for e in errs]), errs, N + 1)
                    elif errs and errs[0] > 1e-6:
                        V("section2d/%s/%s" % (name, sec), "2-D section point (%d,%d) on %s=0: %s discrepancy %.3e at the coarsest rung and no convergence" % (a, b, sec, name, errs[0]), errs)
    return res(evals=n, nontrivial=nontriv, viol=list(viol.values()), stats=stats, sample={"tag": tag, "ladders": n, **{k: (round(v, 2) if isinstance(v, float) else v) for k, v in stats.items()}})


P4 = np.array([0.6, -0.45, 0.5, 0.4]) / np.linalg.norm([0.6, -0.45, 0.5, 0.4])
SEC_IDX = {"q2": 0, "p2": 1, "q3": 2, "p3": 3}
SEC_PLANE = {"q2": (2, 3), "p2": (2, 3), "q3": (0, 1), "p3": (0, 1)}


def _probe(cm, r0, s_fixed):
    """the conversions the property speaks about, on one object"""
    p = 0.5 * r0 * P4
    s = np.asarray(cm.to_synodic(p), dtype=float)
    return {"to_synodic": s, "to_cm": np.asarray(cm.to_cm(s_fixed), dtype=float),
            "to_synodic_2d": np.asarray(cm.to_synodic(np.array([0.02, -0.01]), energy=0.02, section_coord="q3"), dtype=float)}


def k_cm_history(params):
    """every sequence prefix + (<= extra further operations) over {to_synodic, to_cm, degree := 4, degree := 6, 2-D section conversion} on one
    CenterManifold; afterwards its conversions must equal those of a freshly built manifold of the same (current) degree -- the fresh objects
    themselves are what kind `cm` checks against the round-trip and energy statements"""
    system = _system(params["system"])
    Ln = params["point"]
    viol = {}
    n = nt = nseq = 0
    r0 = params["r0"]
    ops = ["TS", "TC", "D4", "D6", "S2"]
    pt = system.get_libration_point(Ln)
    gamma = float(pt.dynamics.gamma)
    pos = np.asarray(pt.position, dtype=float)
    s_fixed = np.array([pos[0] + 0.01 * gamma, 0.0, 0.005 * gamma, 0.0, 0.01 * gamma, 0.0])
    twins = {}

    def twin(N):
        if N not in twins:
            sys2 = _system(params["system"])
            twins[N] = _probe(_L["CM"](sys2.get_libration_point(Ln), N), r0, s_fixed)
        return twins[N]

    def apply(cm, op):
        if op == "TS":
            cm.to_synodic(0.5 * r0 * P4)
        elif op == "TC":
            cm.to_cm(s_fixed)
        elif op == "D4":
            cm.degree = 4
        elif op == "D6":
            cm.degree = 6
        elif op == "S2":
            cm.to_synodic(np.array([0.02, -0.01]), energy=0.02, section_coord="q3")

    for prefix in params["prefixes"]:
        for depth in range(0, params["extra"] + 1):
            for rest in itertools.product(ops, repeat=depth):
                seq = tuple(prefix) + rest
                system = _system(params["system"])
                cm = _L["CM"](system.get_libration_point(Ln), params["N0"])
                tag = "system=%s L%d, CenterManifold(degree %d) after the operations %s" % (params["system"], Ln, params["N0"], list(seq))
                try:
                    for op in seq:
                        apply(cm, op)
                    got = _probe(cm, r0, s_fixed)
                    Ncur = int(cm.degree)
                except Exception as exc:
                    viol.setdefault("history/raises", violation("history/raises", "operation sequence raises %s: %s [%s]" % (type(exc).__name__, str(exc)[:120], tag), None, None, ("cm_history", params)))
                    continue
                want = twin(Ncur)
                nseq += 1
                for name in got:
                    n += 1
                    d = float(np.max(np.abs(got[name] - want[name])))
                    if any(o in ("D4", "D6") for o in seq):
                        nt += 1
                    if d > 1e-11 * (1.0 + float(np.max(np.abs(want[name])))):
                        key = "history/%s" % name
                        viol.setdefault(key, violation(key, "%s of the long-lived object (current degree %d) differs from that of a freshly built degree-%d manifold by %.3e: %s vs %s [%s]" % (
                            name, Ncur, Ncur, d, got[name].tolist(), want[name].tolist(), tag), got[name], want[name], ("cm_history", params)))
    return res(evals=n, nontrivial=nt, viol=list(viol.values()), stats={"operation_histories": nseq}, sample={"system": params["system"], "point": Ln, "prefixes": params["prefixes"], "histories": nseq})


def k_map_history(params):
    """CenterManifoldMap: compute a map on section A (or nothing), then convert 2-D points with an explicitly requested section B, for every B:
    the synodic state must lie on section B and on the map's energy level"""
    from hiten.system.maps.center import CenterManifoldMap
    from hiten.algorithms.poincare.centermanifold.options import CenterManifoldMapOptions
    from hiten.algorithms.poincare.centermanifold.config import CenterManifoldMapConfig
    from hiten.algorithms.types.options import IntegrationOptions, WorkerOptions
    from hiten.algorithms.types.configs import IntegrationConfig
    from hiten.algorithms.poincare.core.options import IterationOptions, SeedingOptions

    system = _system(params["system"])
    mu = float(system.mu)
    Ln, N, h0 = params["point"], params["N"], params["energy"]
    pt = system.get_libration_point(Ln)
    gamma = float(pt.dynamics.gamma)
    pos = np.asarray(pt.position, dtype=float)
    EL = E_ref([pos[0], pos[1], pos[2], 0, 0, 0], mu)
    cm = _L["CM"](pt, N)
    H = cm.hamiltonian(N)
    viol = {}
    n = nt = 0
    for computed in params["computed"]:      # list of sections computed beforehand, in order
        pm = CenterManifoldMap(cm, h0)
        for A in computed:
            pm.config = CenterManifoldMapConfig(seed_strategy="axis_aligned", seed_axis=None, section_coord=A, integration=IntegrationConfig(method="fixed"))
            opts = CenterManifoldMapOptions(integration=IntegrationOptions(dt=1e-2, order=4, max_steps=2000), iteration=IterationOptions(n_iter=1), seeding=SeedingOptions(n_seeds=3), workers=WorkerOptions(n_workers=1))
            pm.compute(section_coord=A, options=opts)
        for B in ("q2", "p2", "q3", "p3"):
            tag = "system=%s L%d N=%d energy=%g: map computed on %s, then to_synodic(pt, section_coord=%s)" % (params["system"], Ln, N, h0, computed or "nothing", B)
            rr = 0.3 * math.sqrt(h0)
            for a, b in ((1, 0.5), (-0.6, 1)):
                pt2 = np.array([a * rr, b * rr * 0.8])
                n += 1
                try:
                    s = np.asarray(pm.to_synodic(pt2, section_coord=B), dtype=float)
                except Exception as exc:
                    viol.setdefault("map_history/raises", violation("map_history/raises", "to_synodic raises %s: %s [%s]" % (type(exc).__name__, str(exc)[:120], tag), None, None, ("map_history", params)))
                    continue
                p4 = np.asarray(cm.to_cm(s), dtype=float)
                nt += 1
                # discrepancies of the correct conversion are O(r^(N+1)) ~ 1e-7 here; a point lifted on another section is off by O(r) ~ 1e-2
                tol = 1e-4 * rr
                eS = abs(p4[SEC_IDX[B]])
                eP = float(np.max(np.abs(p4[list(SEC_PLANE[B])] - pt2)))
                eH = abs(complex(H(np.array([0.0, p4[0], p4[2], 0.0, p4[1], p4[3]]))).real - h0)
                eE = abs((E_ref(s, mu) - EL) / gamma ** 2 - h0)
                for name, e in (("on_section", eS), ("plane_coordinates", eP), ("on_energy_level", eH), ("reference_energy", eE)):
                    if e > tol:
                        key = "map_history/%s" % name
                        viol.setdefault(key, violation(key, "%s discrepancy %.3e (tolerance %.1e; state back in centre-manifold coordinates %s, plane point %s) [%s]" % (name, e, tol, np.round(p4, 5).tolist(), pt2.tolist(), tag), e, tol, ("map_history", params)))
    return res(evals=n, nontrivial=nt, viol=list(viol.values()), sample={"system": params["system"], "computed": params["computed"], "conversions": n})


KINDS = {"cm": k_cm, "cm_history": k_cm_history, "map_history": k_map_history}


def cases(tier, seed):
    o = seed_offsets(seed, 1, 0.1)
    systems = [["earth", "moon"], ["sun", "jupiter"]] if tier == "quick" else [["earth", "moon"], ["sun", "earth"], ["sun", "jupiter"], 0.05]
    Ns = [4, 6] if tier == "quick" else [4, 6, 8]
    out = []
    for sysn in systems:
        for Ln in (1, 2):
            for N in Ns:
                out.append(("cm", {"system": sysn, "point": Ln, "N": N, "r0": 0.12 * (1 + o[0]), "h0": 0.02,
                                   "dirs": "all", "rungs": 5}))
    # operation histories on one CenterManifold (all sequences of <= 3 operations, split by the first one) and on one CenterManifoldMap
    hops = ("TS", "TC", "D4", "D6", "S2")
    out.append(("cm_history", {"system": ["earth", "moon"], "point": 1, "N0": 4, "prefixes": [[f] for f in hops], "extra": 0, "r0": 0.12 * (1 + o[0])}))
    for f in hops:
        for g in hops:
            out.append(("cm_history", {"system": ["earth", "moon"], "point": 1, "N0": 4, "prefixes": [[f, g]], "extra": 1 if tier == "quick" else 2, "r0": 0.12 * (1 + o[0])}))
    secs = ("q2", "p2", "q3", "p3")
    for A in secs:
        out.append(("map_history", {"system": ["earth", "moon"], "point": 1, "N": 4, "energy": 0.02, "computed": [[], [A]] + ([[A, B] for B in secs if B != A] if tier != "quick" else [])}))
    return out
