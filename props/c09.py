"""C09 - centre-manifold points map to synodic states consistently in position and energy.

Lattice: systems x {L1,L2} x degree N x all 80 non-zero directions of {-1,0,1}^4 in (q2,p2,q3,p3)
x radius ladder; 2-D section points: section coordinate {q2,p2,q3,p3} x energy ladder x plane lattice.
"""
import itertools
import math

import numpy as np

from engine.core import res, violation, seed_offsets

ID = "C09"
LEVEL = "exploration"
WORKERS = {"quick": 12, "thorough": 16}
RULE = ("complete product system x {L1,L2} x N x 80 directions of {-1,0,1}^4 x 5-rung radius ladder for the round trip and the energy identity; "
        "4 section coordinates x 3x3 plane lattice x energy ladder for the 2-D conversion; non-trivial = ladder with >= 2 halvings above the floor; distinct = (system, point, N, direction | section point)")
ASSUMPTIONS = [
    "reference energy E = v^2/2 - (x^2+y^2)/2 - (1-mu)/r1 - mu/r2 evaluated at the returned synodic state; E_L at the libration point",
    "radius r0 = 0.12 in centre-manifold coordinates; exponent = median of the last pairwise ratios above the rounding floor, threshold N+1-0.75",
]

_L = {}


def worker_init():
    if _L:
        return
    from hiten.system.base import System
    from hiten.system.center import CenterManifold

    _L.update(System=System, CM=CenterManifold)


def E_ref(s, mu):
    x, y, z, vx, vy, vz = s
    r1 = math.sqrt((x + mu) ** 2 + y * y + z * z)
    r2 = math.sqrt((x - 1 + mu) ** 2 + y * y + z * z)
    return 0.5 * (vx * vx + vy * vy + vz * vz) - 0.5 * (x * x + y * y) - (1 - mu) / r1 - mu / r2


def _slope(errs, floor):
    m = 0
    while m + 1 < len(errs) and errs[m] > floor and errs[m + 1] > floor:
        m += 1
    if m == 0:
        return 0, None
    pairs = [math.log2(errs[i] / errs[i + 1]) for i in range(m)]
    tail = sorted(pairs[-3:])
    return m, tail[len(tail) // 2]


def _system(entry):
    System = _L["System"]
    return System.from_bodies(*entry) if isinstance(entry, list) else System.from_mu(entry)


def k_cm(params):
    system = _system(params["system"])
    mu = float(system.mu)
    Ln, N = params["point"], params["N"]
    pt = system.get_libration_point(Ln)
    cm = _L["CM"](pt, N)
    H = cm.hamiltonian(N)
    # get_lie_expansions recomputes the (deterministic) Lie series on every conversion (~0.15 s each); memoise it per (inverse, tol)
    # on this pipeline instance so that the real to_synodic / to_cm chain is exercised at lattice scale
    pipe = cm.dynamics.pipeline
    _orig = pipe.get_lie_expansions
    _memo = {}

    def _cached(inverse=False, tol=1e-16):
        key = (bool(inverse), float(tol))
        if key not in _memo:
            _memo[key] = _orig(inverse=inverse, tol=tol)
        return _memo[key]
    pipe.get_lie_expansions = _cached
    if cm.dynamics.pipeline is not pipe:
        raise RuntimeError("pipeline instance is not stable; memoisation would not take effect")
    gamma = float(pt.dynamics.gamma)
    pos = np.asarray(pt.position, dtype=float)
    EL = E_ref([pos[0], pos[1], pos[2], 0, 0, 0], mu)
    tag = "system=%s L%d N=%d" % (params["system"], Ln, N)
    viol = {}

    def V(key, what, obs=None, exp=None):
        viol.setdefault(key, violation(key, what + " [%s]" % tag, obs, exp))

    def Hcm(p4):
        return complex(H(np.array([0.0, p4[0], p4[2], 0.0, p4[1], p4[3]]))).real

    n = 0
    nontriv = 0
    stats = {}
    r0 = params["r0"]
    w = np.array([1.0, 0.85, 0.7, 0.9])
    nr = params.get("rungs", 5)
    for d in itertools.product((-1, 0, 1), repeat=4):
        if not any(d):
            continue
        if params.get("dirs") == "axes_corners" and not (sum(1 for v in d if v) == 1 or (all(d) and (d[0] * d[1] * d[2] * d[3] > 0))):
            continue   # quick tier: 8 axis directions + 8 corners (each conversion recomputes the Lie series, ~0.13 s)
        u = np.array(d, dtype=float) * w
        u = u / np.linalg.norm(u)
        eR, eE = [], []
        for k in range(nr):
            p = r0 * 2.0 ** (-k) * u
            s = np.asarray(cm.to_synodic(p), dtype=float)
            back = np.asarray(cm.to_cm(s), dtype=float)
            eR.append(float(np.max(np.abs(back - p))))
            eE.append(abs((E_ref(s, mu) - EL) / gamma ** 2 - Hcm(p)))
        n += 2   # two ladders (round trip, energy) per direction
        efloor = 200 * 2.2e-16 * abs(EL) / gamma ** 2     # rounding of the synodic energy difference, amplified by 1/gamma^2
        for name, errs, floor in (("roundtrip", eR, 1e-14), ("energy", eE, efloor)):
            m, sl = _slope(errs, floor)
            if m >= 2:
                nontriv += 1
                stats["min_margin_" + name] = min(stats.get("min_margin_" + name, 99.0), sl - (N + 1))
                if sl < N + 1 - 0.75:
                    V("cm4d/%s" % name, "%s discrepancy shrinks with exponent %.2f < N+1=%d along (q2,p2,q3,p3) direction %s: %s" % (name, sl, N + 1, np.round(u, 2).tolist(), ["%.2e" % e for e in errs]), errs, N + 1)
    # 2-D section points at prescribed energy
    idx = {"q2": 0, "p2": 1, "q3": 2, "p3": 3}
    plane = {"q2": (2, 3), "p2": (2, 3), "q3": (0, 1), "p3": (0, 1)}
    h0 = params["h0"]
    for sec in ("q3", "p3", "q2", "p2"):
        for a in (-1, 0, 1):
            for b in (-1, 0, 1):
                if params.get("dirs") == "axes_corners" and (a, b) in ((0, -1), (-1, 0), (1, -1), (-1, 1)):
                    continue
                n += 4   # four ladders per section point
                eS, eH, eP, eE = [], [], [], []
                ok = True
                for k in range(4):
                    hk = h0 * 4.0 ** (-k)
                    # plane point well inside the energy level: radius ~ 0.35 sqrt(h/omega)
                    rr = 0.35 * math.sqrt(hk)
                    pt2 = np.array([a * rr, b * rr * 0.8])
                    try:
                        s = np.asarray(cm.to_synodic(pt2, energy=hk, section_coord=sec), dtype=float)
                    except Exception as exc:
                        ok = False
                        stats["section_points_rejected"] = stats.get("section_points_rejected", 0) + 1
                        break
                    p4 = np.asarray(cm.to_cm(s), dtype=float)
                    eS.append(abs(p4[idx[sec]]))
                    eH.append(abs(Hcm(p4) - hk))
                    eP.append(float(np.max(np.abs(p4[list(plane[sec])] - pt2))))
                    eE.append(abs((E_ref(s, mu) - EL) / gamma ** 2 - hk))
                if not ok:
                    continue
                # r halves per rung (h quarters): same exponents as above in r
                efloor = 200 * 2.2e-16 * abs(EL) / gamma ** 2
                for name, errs in (("on_section", eS), ("on_energy_level", eH), ("plane_coordinates", eP), ("reference_energy", eE)):
                    m, sl = _slope(errs, efloor if name == "reference_energy" else 3e-14)
                    if m >= 2:
                        nontriv += 1
                        if sl < N + 1 - 0.75 - 0.5:
                            V("section2d/%s/%s" % (name, sec), "2-D section point (%d,%d) on %s=0 at energy h: %s discrepancy shrinks with exponent %.2f (in r ~ sqrt(h)) < N+1=%d: %s" % (
                                a, b, sec, name, sl, N + 1, ["%.2e" % e for e in errs]), errs, N + 1)
                    elif errs and errs[0] > 1e-6:
                        V("section2d/%s/%s" % (name, sec), "2-D section point (%d,%d) on %s=0: %s discrepancy %.3e at the coarsest rung and no convergence" % (a, b, sec, name, errs[0]), errs)
    return res(evals=n, nontrivial=nontriv, viol=list(viol.values()), stats=stats, sample={"tag": tag, "ladders": n, **{k: (round(v, 2) if isinstance(v, float) else v) for k, v in stats.items()}})


KINDS = {"cm": k_cm}


def cases(tier, seed):
    o = seed_offsets(seed, 1, 0.1)
    systems = [["earth", "moon"], ["sun", "jupiter"]] if tier == "quick" else [["earth", "moon"], ["sun", "earth"], ["sun", "jupiter"], 0.05]
    Ns = [4, 6] if tier == "quick" else [4, 6, 8]
    out = []
    for sysn in systems:
        for Ln in (1, 2):
            for N in Ns:
                out.append(("cm", {"system": sysn, "point": Ln, "N": N, "r0": 0.12 * (1 + o[0]), "h0": 0.02,
                                   "dirs": "all", "rungs": 5}))
    return out
