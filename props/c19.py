"""C19 - reported connections are geometrically and kinematically what they claim.

Alphabet : point clouds = all multisets of <= K points of the integer lattice {0,1,2}^2
           (K=3 quick, 4 thorough; duplicates, collinear and coincident u/s points included),
           stable cloud in sorted and reversed order; eps in {1, 1.5, 3}; (dv_tol, bal_tol)
           menu with thresholds that coincide exactly with occurring mismatches; integer
           velocity tables; all 9^4 lattice segment pairs (+ an irrationally sheared copy)
           for the closest-point kernel; brute-force twins for the pairing kernels.
Oracle   : brute force, written from the statement only.
"""
import itertools
import math

import numpy as np

from engine.core import res, violation, seed_offsets

ID = "C19"
LEVEL = "exploration"
WORKERS = {"quick": 12, "thorough": 16}
RULE = ("complete product: (multisets of <=K lattice points for the unstable cloud) x (same for the stable cloud, "
        "sorted and reversed order) x eps{1,1.5,3} x tolerance menu x 2 velocity tables, every backend.run() result "
        "checked against a brute-force oracle; all 6561 lattice segment pairs and their sheared copies for the "
        "closest-point kernel; non-trivial = the backend reported >=1 connection (run cases) / segment pair evaluated "
        "(kernel cases); distinct = distinct (clouds, eps, tolerances, table) tuples")
ASSUMPTIONS = [
    "positions of the 6-D states are set equal to the 2-D section points so the reported states expose the points used",
    "ties between equidistant neighbours: any choice accepted; dv == bal_tol exactly: either label accepted",
    "soundness of reported connections only (the statement does not require completeness)",
]

LAT = [(x, y) for x in range(3) for y in range(3)]
TOL = 1e-11

_be = None


def worker_init():
    global _be
    from hiten.algorithms.connections import backends as be

    _be = be
    # compile
    be._closest_points_on_segments_2d(0.0, 0.0, 1.0, 0.0, 0.0, 1.0, 1.0, 1.0)


# ------------------------------------------------------------------ reference geometry
def _pt_seg_d2(p, a, b):
    ux, uy = b[0] - a[0], b[1] - a[1]
    L = ux * ux + uy * uy
    if L == 0.0:
        t = 0.0
    else:
        t = ((p[0] - a[0]) * ux + (p[1] - a[1]) * uy) / L
        t = min(1.0, max(0.0, t))
    dx = p[0] - (a[0] + t * ux)
    dy = p[1] - (a[1] + t * uy)
    return dx * dx + dy * dy


def _orient(a, b, c):
    return (b[0] - a[0]) * (c[1] - a[1]) - (b[1] - a[1]) * (c[0] - a[0])


def ref_seg_dist(a0, a1, b0, b1):
    o1, o2 = _orient(a0, a1, b0), _orient(a0, a1, b1)
    o3, o4 = _orient(b0, b1, a0), _orient(b0, b1, a1)
    if o1 * o2 < 0 and o3 * o4 < 0:
        return 0.0
    d2 = min(_pt_seg_d2(a0, b0, b1), _pt_seg_d2(a1, b0, b1), _pt_seg_d2(b0, a0, a1), _pt_seg_d2(b1, a0, a1))
    return math.sqrt(d2)


def seg_class(a0, a1, b0, b1):
    da = (a1[0] - a0[0], a1[1] - a0[1])
    db = (b1[0] - b0[0], b1[1] - b0[1])
    A = da[0] ** 2 + da[1] ** 2
    C = db[0] ** 2 + db[1] ** 2
    if A == 0 and C == 0:
        return "both_degenerate"
    if A == 0:
        return "A_degenerate"
    if C == 0:
        return "B_degenerate"
    cr = da[0] * db[1] - da[1] * db[0]
    if abs(cr) <= 1e-12 * math.sqrt(A * C):
        return "parallel"
    return "general"


def _check_seg(a0, a1, b0, b1, tag, scale=1.0):
    """returns (violation|None); `scale` = length scale of the configuration (tolerances are relative to it)"""
    s, t, px, py, qx, qy = _be._closest_points_on_segments_2d(
        float(a0[0]), float(a0[1]), float(a1[0]), float(a1[1]), float(b0[0]), float(b0[1]), float(b1[0]), float(b1[1]))
    cls = seg_class(a0, a1, b0, b1)
    case = ("seg_one", {"a0": list(a0), "a1": list(a1), "b0": list(b0), "b1": list(b1), "tag": tag, "scale": scale})
    if not (0.0 <= s <= 1.0 and 0.0 <= t <= 1.0):
        return violation("closest_points/%s/param_out_of_range" % cls, "s,t outside [0,1]: s=%r t=%r" % (s, t), [s, t], None, case)
    ex = (a0[0] + s * (a1[0] - a0[0]), a0[1] + s * (a1[1] - a0[1]), b0[0] + t * (b1[0] - b0[0]), b0[1] + t * (b1[1] - b0[1]))
    if max(abs(ex[0] - px), abs(ex[1] - py), abs(ex[2] - qx), abs(ex[3] - qy)) > TOL * scale:
        return violation("closest_points/%s/points_inconsistent" % cls, "returned points are not a0+s*u, b0+t*v", [px, py, qx, qy], ex, case)
    d = math.hypot(px - qx, py - qy)
    dref = ref_seg_dist(a0, a1, b0, b1)
    if abs(d - dref) > 1e-9 * (scale + dref):
        return violation("closest_points/%s/not_closest%s" % (cls, "" if scale == 1.0 else "/small_scale"),
                         "segments A=%s-%s B=%s-%s: returned pair at distance %.12g, true segment distance %.12g (s=%g,t=%g)"
                         % (a0, a1, b0, b1, d, dref, s, t), d, dref, case)
    return None


def k_seg_lattice(params):
    i0 = params["a0"]
    M = params.get("shear")
    viol = {}
    n = 0
    classes = {}

    sc = float(params.get("scale", 1.0))

    def tr(p):
        if M is None:
            return (sc * float(p[0]), sc * float(p[1]))
        return (sc * (M[0][0] * p[0] + M[0][1] * p[1]) + M[2][0], sc * (M[1][0] * p[0] + M[1][1] * p[1]) + M[2][1])

    a0 = LAT[i0]
    for a1 in LAT:
        for b0 in LAT:
            for b1 in LAT:
                n += 1
                cls = seg_class(a0, a1, b0, b1)
                classes[cls] = classes.get(cls, 0) + 1
                v = _check_seg(tr(a0), tr(a1), tr(b0), tr(b1), "shear" if M else "lattice", sc)
                if v is not None and v["key"] not in viol:
                    viol[v["key"]] = v
    return res(evals=n, nontrivial=n, viol=list(viol.values()), stats={"segpairs_" + k: v for k, v in classes.items()},
               sample={"a0": a0, "pairs": n, "classes": classes})


def k_seg_one(params):
    worker_init()
    v = _check_seg(tuple(params["a0"]), tuple(params["a1"]), tuple(params["b0"]), tuple(params["b1"]), params.get("tag", ""), float(params.get("scale", 1.0)))
    return res(evals=1, nontrivial=1, viol=[v] if v else [])


# ------------------------------------------------------------------ pairing kernels
def _clouds(K):
    out = []
    for k in range(1, K + 1):
        for c in itertools.combinations_with_replacement(range(9), k):
            out.append(c)
    return out


def k_radpair(params):
    K = params["K"]
    cl = _clouds(K)
    n = 0
    viol = {}
    for cu in cl[params["lo"]:params["hi"]]:
        q = np.array([LAT[i] for i in cu], dtype=float)
        for cs in cl:
            r = np.array([LAT[i] for i in cs], dtype=float)
            for eps in (0.9, 1.0, 1.5, 2.0):
                n += 1
                got = _be._radius_pairs_2d(q, r, eps)
                gotset = sorted((int(a), int(b)) for a, b in got)
                exp = sorted((i, j) for i in range(len(cu)) for j in range(len(cs))
                             if (q[i, 0] - r[j, 0]) ** 2 + (q[i, 1] - r[j, 1]) ** 2 <= eps * eps)
                if gotset != exp and "radpair" not in viol:
                    viol["radpair"] = violation("radius_pairs/mismatch", "radius pairs differ from brute force for u=%s s=%s eps=%g" % (cu, cs, eps),
                                                gotset, exp, ("radpair_one", {"u": list(cu), "s": list(cs), "eps": eps}))
    # nearest neighbour kernel on every cloud of this slice
    for cu in cl[params["lo"]:params["hi"]]:
        if len(cu) < 2:
            continue
        p = np.array([LAT[i] for i in cu], dtype=float)
        nn = _be._nearest_neighbor_2d(p)
        n += 1
        for i in range(len(cu)):
            d = [(p[i, 0] - p[j, 0]) ** 2 + (p[i, 1] - p[j, 1]) ** 2 if j != i else 1e300 for j in range(len(cu))]
            j = int(nn[i])
            if j < 0 or j == i or d[j] != min(d):
                if "nn" not in viol:
                    viol["nn"] = violation("nearest_neighbor/mismatch", "nearest neighbour of point %d in cloud %s is %d" % (i, cu, j), j, int(np.argmin(d)),
                                           ("radpair_one", {"u": list(cu), "s": list(cu), "eps": 1.0}))
    return res(evals=n, nontrivial=n, viol=list(viol.values()))


def k_radpair_one(params):
    worker_init()
    q = np.array([LAT[i] for i in params["u"]], dtype=float)
    r = np.array([LAT[i] for i in params["s"]], dtype=float)
    eps = params["eps"]
    viol = []
    got = sorted((int(a), int(b)) for a, b in _be._radius_pairs_2d(q, r, eps))
    exp = sorted((i, j) for i in range(len(q)) for j in range(len(r)) if (q[i, 0] - r[j, 0]) ** 2 + (q[i, 1] - r[j, 1]) ** 2 <= eps * eps)
    if got != exp:
        viol.append(violation("radius_pairs/mismatch", "radius pairs differ from brute force", got, exp))
    if len(q) >= 2:
        nn = _be._nearest_neighbor_2d(q)
        for i in range(len(q)):
            d = [(q[i, 0] - q[j, 0]) ** 2 + (q[i, 1] - q[j, 1]) ** 2 if j != i else 1e300 for j in range(len(q))]
            j = int(nn[i])
            if j < 0 or j == i or d[j] != min(d):
                viol.append(violation("nearest_neighbor/mismatch", "nearest neighbour wrong", j, int(np.argmin(d))))
                break
    return res(viol=viol)


# ------------------------------------------------------------------ backend.run
VTAB = [
    # velocity of a lattice point id, per role; integer valued so that mismatches hit thresholds exactly
    {"u": [(0, 0, 0), (1, 0, 0), (0, 2, 0), (0, 0, 1), (1, 1, 0), (2, 0, 0), (0, 0, 0), (0, 1, 2), (3, 0, 0)],
     "s": [(0, 0, 0), (0, 0, 0), (0, 0, 0), (1, 0, 0), (1, 0, 0), (0, 2, 0), (0, 0, 1), (2, 2, 1), (0, 0, 0)]},
    {"u": [(1, 0, 0)] * 9,
     "s": [(1, 0, 0), (1, 1, 0), (1, 0, 2), (2, 0, 0), (1, 0, 0.5), (1, 0, 0), (0, 0, 0), (1, 3, 0), (1, 0, 1)]},
]
TOLMENU = [(1e9, 0.0), (1.0, 0.5), (2.0, 1.0), (3.0, 3.0), (0.5, 1.0)]
EPSMENU = [1.0, 1.5, 3.0]


def _states(cloud, role, tab, off):
    pts = np.array([[LAT[i][0] + off[0], LAT[i][1] + off[1]] for i in cloud], dtype=float)
    X = np.zeros((len(cloud), 6))
    X[:, 0:2] = pts
    for k, i in enumerate(cloud):
        X[k, 3:6] = VTAB[tab][role][i]
    return pts, X


def _on_segment(P, a, b):
    """is P on segment [a,b] (tolerance)? returns the parameter or None"""
    ux, uy = b[0] - a[0], b[1] - a[1]
    L = ux * ux + uy * uy
    if L == 0.0:
        return 0.0 if math.hypot(P[0] - a[0], P[1] - a[1]) <= TOL else None
    t = ((P[0] - a[0]) * ux + (P[1] - a[1]) * uy) / L
    if t < -TOL or t > 1 + TOL:
        return None
    if math.hypot(P[0] - (a[0] + t * ux), P[1] - (a[1] + t * uy)) > TOL:
        return None
    return t


def _nn_candidates(pts, i):
    d = [(pts[i, 0] - pts[j, 0]) ** 2 + (pts[i, 1] - pts[j, 1]) ** 2 if j != i else float("inf") for j in range(len(pts))]
    m = min(d)
    return [j for j in range(len(pts)) if d[j] == m and j != i]


def check_run(cu, cs, eps, dv_tol, bal_tol, tab, off_u, off_s):
    """Run the real backend once and return (n_results, violation list)."""
    from hiten.algorithms.connections.types import ConnectionsBackendRequest

    pu, Xu = _states(cu, "u", tab, off_u)
    ps, Xs = _states(cs, "s", tab, off_s)
    req = ConnectionsBackendRequest(points_u=pu, points_s=ps, states_u=Xu, states_s=Xs, traj_indices_u=None,
                                    traj_indices_s=None, eps=eps, dv_tol=dv_tol, bal_tol=bal_tol)
    out = _be._ConnectionsBackend().run(req)
    rs = out.results
    viol = []
    case = ("run_one", {"u": list(cu), "s": list(cs), "eps": eps, "dv_tol": dv_tol, "bal_tol": bal_tol, "tab": tab,
                        "off_u": list(off_u), "off_s": list(off_s)})

    def V(key, what, obs=None, exp=None):
        viol.append(violation("run/" + key, what + " [u=%s s=%s eps=%g dv_tol=%g bal_tol=%g tab=%d]" % (cu, cs, eps, dv_tol, bal_tol, tab), obs, exp, case))

    if (len(cu) + 2 * len(cs) + tab) % 3 == 0:
        # one backend instance that has answered a different request before (roles swapped, wider radius, other tolerances) must answer this
        # request exactly as a new instance does
        be = _be._ConnectionsBackend()
        be.run(ConnectionsBackendRequest(points_u=ps, points_s=pu, states_u=Xs, states_s=Xu, traj_indices_u=None, traj_indices_s=None,
                                         eps=2.5 * eps, dv_tol=10 * dv_tol, bal_tol=0.5 * bal_tol))
        rs2 = be.run(req).results
        sig = lambda rr: [(r.index_u, r.index_s, float(r.delta_v), str(r.kind), tuple(np.asarray(r.point2d, dtype=float).tolist())) for r in rr]
        try:
            same = sig(rs) == sig(rs2)
        except Exception:
            same = len(rs) == len(rs2)
        if not same:
            V("reused_backend", "a backend instance that answered another request before returns %d results, a new instance %d (or they differ in content)" % (len(rs2), len(rs)), len(rs2), len(rs))

    seen_i, seen_j = set(), set()
    last = -1.0
    for r in rs:
        i, j = r.index_u, r.index_s
        if not (0 <= i < len(cu) and 0 <= j < len(cs)):
            V("index_range", "reported indices out of range", [i, j])
            continue
        if i in seen_i or j in seen_j:
            V("not_one_to_one", "a section point is used by two reported connections", [i, j])
        seen_i.add(i)
        seen_j.add(j)
        dij = math.hypot(pu[i, 0] - ps[j, 0], pu[i, 1] - ps[j, 1])
        if dij > eps * (1 + 1e-12):
            V("outside_radius", "reported pair is %.6g apart, search radius %.6g" % (dij, eps), dij, eps)
        # mutual nearest
        for jj in range(len(cs)):
            if math.hypot(pu[i, 0] - ps[jj, 0], pu[i, 1] - ps[jj, 1]) < dij - 1e-12:
                V("not_mutual_nearest", "stable point %d is closer to unstable point %d than its reported partner %d" % (jj, i, j), [i, j], [i, jj])
                break
        for ii in range(len(cu)):
            if math.hypot(pu[ii, 0] - ps[j, 0], pu[ii, 1] - ps[j, 1]) < dij - 1e-12:
                V("not_mutual_nearest", "unstable point %d is closer to stable point %d than its reported partner %d" % (ii, j, i), [i, j], [ii, j])
                break
        su = np.asarray(r.state_u, dtype=float)
        ss = np.asarray(r.state_s, dtype=float)
        dv = float(np.linalg.norm(su[3:6] - ss[3:6]))
        if abs(dv - r.delta_v) > 1e-12 * (1 + dv):
            V("dv_mismatch", "delta_v=%.15g but ||v_u-v_s|| of the reported states = %.15g" % (r.delta_v, dv), r.delta_v, dv)
        if r.delta_v > dv_tol:
            V("dv_exceeds_limit", "delta_v=%.15g exceeds dv_tol=%.15g" % (r.delta_v, dv_tol), r.delta_v, dv_tol)
        if r.delta_v < bal_tol and r.kind != "ballistic":
            V("kind_label", "delta_v=%g < bal_tol=%g but kind=%s" % (r.delta_v, bal_tol, r.kind), r.kind, "ballistic")
        if r.delta_v > bal_tol and r.kind != "impulsive":
            V("kind_label", "delta_v=%g > bal_tol=%g but kind=%s" % (r.delta_v, bal_tol, r.kind), r.kind, "impulsive")
        if r.kind not in ("ballistic", "impulsive"):
            V("kind_label", "unknown kind %r" % (r.kind,), r.kind)
        if r.delta_v < last:
            V("not_sorted", "results not sorted by delta_v", r.delta_v, last)
        last = r.delta_v
        # meeting point
        P = (su[0], su[1])
        Q = (ss[0], ss[1])
        pt = r.point2d
        if len(cu) >= 2 and len(cs) >= 2:
            ok_geom = False
            best = None
            for iu in _nn_candidates(pu, i):
                tu = _on_segment(P, pu[i], pu[iu])
                if tu is None:
                    continue
                for js in _nn_candidates(ps, j):
                    ts = _on_segment(Q, ps[j], ps[js])
                    if ts is None:
                        continue
                    dref = ref_seg_dist(tuple(pu[i]), tuple(pu[iu]), tuple(ps[j]), tuple(ps[js]))
                    d = math.hypot(P[0] - Q[0], P[1] - Q[1])
                    best = (d, dref)
                    if abs(d - dref) <= 1e-9 * (1 + dref):
                        ok_geom = True
                        # velocity must be the same convex combination (only decidable when non-degenerate)
            if best is None:
                V("state_off_segment", "reported states do not lie on the local section segments of the paired points", [list(P), list(Q)])
            elif not ok_geom:
                cls = "general"
                try:
                    iu = _nn_candidates(pu, i)[0]
                    js = _nn_candidates(ps, j)[0]
                    cls = seg_class(tuple(pu[i]), tuple(pu[iu]), tuple(ps[j]), tuple(ps[js]))
                except Exception:
                    pass
                V("meeting_not_closest/" + cls, "reported pair of points is %.9g apart but the local segments are %.9g apart" % best, best[0], best[1])
            mid = (0.5 * (P[0] + Q[0]), 0.5 * (P[1] + Q[1]))
            if math.hypot(pt[0] - mid[0], pt[1] - mid[1]) > TOL:
                V("point_not_midpoint", "point2d=%s is not the midpoint %s of the reported states" % (pt, mid), list(pt), list(mid))
        else:
            # no local segment exists on one side: only require the point to lie between the two paired points
            if _on_segment(pt, pu[i], ps[j]) is None:
                V("point_off_pair", "point2d=%s is not on the segment joining the paired points" % (pt,), list(pt))
    return len(rs), viol


def k_run(params):
    K = params["K"]
    cl = _clouds(K)
    off_u, off_s = params["off_u"], params["off_s"]
    n = 0
    nontriv = 0
    nres = 0
    viol = {}
    for cu in cl[params["lo"]:params["hi"]]:
        for cs0 in cl:
            orders = [cs0] if len(set(cs0)) <= 1 else [cs0, cs0[::-1]]
            for cs in orders:
                for eps in EPSMENU:
                    for dv_tol, bal_tol in TOLMENU:
                        for tab in range(len(VTAB)):
                            n += 1
                            k, vs = check_run(cu, cs, eps, dv_tol, bal_tol, tab, off_u, off_s)
                            nres += k
                            if k:
                                nontriv += 1
                            for v in vs:
                                if v["key"] not in viol:
                                    viol[v["key"]] = v
    return res(evals=n, nontrivial=nontriv, viol=list(viol.values()), stats={"connections_checked": nres},
               sample={"unstable_clouds": [list(c) for c in cl[params["lo"]:params["lo"] + 2]], "runs": n, "connections": nres})


def k_run_one(params):
    worker_init()
    k, vs = check_run(tuple(params["u"]), tuple(params["s"]), params["eps"], params["dv_tol"], params["bal_tol"], params["tab"],
                      params["off_u"], params["off_s"])
    return res(evals=1, nontrivial=1 if k else 0, viol=vs)


KINDS = {"seg_lattice": k_seg_lattice, "seg_one": k_seg_one, "radpair": k_radpair, "radpair_one": k_radpair_one,
         "run": k_run, "run_one": k_run_one}


def cases(tier, seed):
    K = 3 if tier == "quick" else 4
    out = []
    for i in range(9):
        out.append(("seg_lattice", {"a0": i}))
    o = seed_offsets(seed, 6)
    # irrational shear + rotation + translation (seed only moves the matrix, the 6561 pairs are all run)
    M = [[math.sqrt(2) + 0.1 * o[0], 1.0 / math.pi + 0.1 * o[1]], [-(math.sqrt(3) - 1) + 0.1 * o[2], math.e / 3 + 0.1 * o[3]], [o[4], o[5]]]
    for i in range(9):
        out.append(("seg_lattice", {"a0": i, "shear": M}))
    # the statement is scale free: repeat at the length scales of real section data (point spacing 1e-3 .. 1e-6)
    for sc in (1e-3, 1e-4, 1e-6):
        for i in range(9):
            out.append(("seg_lattice", {"a0": i, "shear": M, "scale": sc}))
            out.append(("seg_lattice", {"a0": i, "scale": sc}))
    ncl = len(_clouds(K))
    nsl = 24 if tier == "quick" else 96
    step = (ncl + nsl - 1) // nsl
    # translation of the whole configuration: dyadic so lattice geometry stays exact
    offs = [round(v * 8) / 8 for v in seed_offsets(seed, 2, 4.0)]
    for lo in range(0, ncl, step):
        out.append(("run", {"K": K, "lo": lo, "hi": min(ncl, lo + step), "off_u": offs, "off_s": offs}))
    Kr = 3
    ncl3 = len(_clouds(Kr))
    for lo in range(0, ncl3, 28):
        out.append(("radpair", {"K": Kr, "lo": lo, "hi": min(ncl3, lo + 28)}))
    return out
