"""C04 - libration points are equilibria with correct linear dynamics for every mu.

Alphabet: all catalogue pairs (enumerated from Constants.orbital_distances at run time) + a mu
ladder (40 log-spaced values 2e-9 .. 0.5 + special values) x points L1..L5.
Oracle: reference CR3BP field / Jacobian in mpmath (shared with C01), independent quintic residual,
eigenvalues of the reference Jacobian, symplecticity and H2-reduction of the normal-form matrix,
Legendre coefficients c_n from an mpmath Taylor expansion of the primaries' potential.
"""
import math

import numpy as np

from engine.core import res, violation, seed_offsets

ID = "C04"
LEVEL = "exploration"
WORKERS = {"quick": 12, "thorough": 16}
RULE = ("access histories in newly forked processes (two systems in both creation orders x point visiting orders, every visit checked in full, then all again in reverse); complete product (catalogue pairs + mu ladder) x {L1..L5}: existence, equilibrium residual, gamma vs position and quintic, linear modes vs eigenvalues of the reference "
        "Jacobian, normal-form matrix (C^T J C = J and C^T Hess(H2) C = target pattern), c_n for n=2..8; non-trivial = point returned and checked; distinct = (mu, point)")
ASSUMPTIONS = [
    "L4/L5 above the Routh ratio have no real frequencies: raising there is a legitimate rejection",
    "equilibrium residual bound 1e-8*(1+1/gamma^2) (conditioning of the collinear root); eigenvalue agreement 1e-7 relative",
    "orientation of the local x axis is not fixed by the statement: c_n must match one of the two orientations for all n simultaneously (C07 pins the orientation through the full Hamiltonian)",
]

ROUTH = 0.5 * (1 - math.sqrt(69) / 9)
_L = {}


def worker_init():
    if _L:
        return
    import mpmath as mp
    from hiten.system.base import System

    mp.mp.dps = 40
    _L.update(mp=mp, System=System)


def _accel_mp(x, y, mu):
    mp = _L["mp"]
    r1 = mp.sqrt((x + mu) ** 2 + y * y)
    r2 = mp.sqrt((x - 1 + mu) ** 2 + y * y)
    ax = x - (1 - mu) * (x + mu) / r1 ** 3 - mu * (x - 1 + mu) / r2 ** 3
    ay = y - (1 - mu) * y / r1 ** 3 - mu * y / r2 ** 3
    return ax, ay


def _jac_ref(pos, mu):
    """6x6 Jacobian of the reference field at an equilibrium (velocity zero), by 40-digit central differences"""
    mp = _L["mp"]

    def field(s):
        x, y, z, vx, vy, vz = s
        r1 = mp.sqrt((x + mu) ** 2 + y * y + z * z)
        r2 = mp.sqrt((x - 1 + mu) ** 2 + y * y + z * z)
        return [vx, vy, vz, 2 * vy + x - (1 - mu) * (x + mu) / r1 ** 3 - mu * (x - 1 + mu) / r2 ** 3,
                -2 * vx + y - (1 - mu) * y / r1 ** 3 - mu * y / r2 ** 3, -(1 - mu) * z / r1 ** 3 - mu * z / r2 ** 3]
    s0 = [mp.mpf(float(pos[0])), mp.mpf(float(pos[1])), mp.mpf(float(pos[2])), mp.mpf(0), mp.mpf(0), mp.mpf(0)]
    h = mp.mpf("1e-15")
    J = mp.zeros(6, 6)
    for j in range(6):
        a = list(s0); b = list(s0)
        a[j] += h; b[j] -= h
        fa, fb = field(a), field(b)
        for i in range(6):
            J[i, j] = (fa[i] - fb[i]) / (2 * h)
    return J


def _cn_ref(mu, gamma, which, n_max):
    """Legendre coefficients from the Taylor expansion of the primaries' potential along the local x axis,
    for both orientations of that axis. Local unit = gamma, origin = the libration point."""
    mp = _L["mp"]
    mu = mp.mpf(mu)
    g = mp.mpf(gamma)
    xL = {"L1": 1 - mu - g, "L2": 1 - mu + g, "L3": -mu - g}[which]
    out = {}
    for orient in (+1, -1):
        def G(s):
            X = xL + orient * g * s
            return ((1 - mu) / abs(X + mu) + mu / abs(X - 1 + mu)) / g ** 3 * g ** 2 * g  # potential in local units: (1/gamma^3) * sum m_i / (d_i/gamma)
        # note: (1/gamma^3) * m_i / (d_i/gamma) = m_i / (gamma^2 d_i) ; keep explicit form below
        def G2(s):
            X = xL + orient * g * s
            return ((1 - mu) / abs(X + mu) + mu / abs(X - 1 + mu)) / g ** 2
        coeffs = mp.taylor(G2, 0, n_max)
        out[orient] = [float(coeffs[n]) for n in range(n_max + 1)]
    return out


def check_point(system, mu, name, tag):
    """returns (violations, info dict)"""
    mp = _L["mp"]
    viol = []

    def V(key, what, obs=None, exp=None):
        viol.append(violation("%s/%s" % (name, key), what + " [%s]" % tag, obs, exp, ("point_one", {"mu": mu, "point": name})))

    info = {}
    idx = int(name[1])
    try:
        pt = system.get_libration_point(idx)
        pos = np.asarray(pt.position, dtype=float)
    except Exception as exc:
        V("not_returned", "libration point is not returned: %s: %s" % (type(exc).__name__, str(exc)[:160]))
        return viol, info
    mum = mp.mpf(float(mu))
    ax, ay = _accel_mp(mp.mpf(float(pos[0])), mp.mpf(float(pos[1])), mum)
    resid = float(mp.sqrt(ax * ax + ay * ay))
    collinear = idx <= 3
    gamma = None
    if collinear:
        try:
            gamma = float(pt.dynamics.gamma)
        except Exception as exc:
            V("gamma_raises", "gamma cannot be computed: %s: %s" % (type(exc).__name__, str(exc)[:120]))
    bound = 1e-8 * (1 + (1 / gamma ** 2 if gamma else 1.0))
    info["residual"] = resid
    if resid > bound or abs(pos[2]) > 0:
        V("not_equilibrium", "acceleration at the reported position is %.3e (bound %.1e), position %s" % (resid, bound, pos.tolist()), resid, bound)
    if collinear and gamma is not None:
        d1, d2 = abs(pos[0] + mu), abs(pos[0] - 1 + mu)
        near = d2 if idx in (1, 2) else d1
        if abs(gamma - near) > 1e-7 * near + 1e-12:   # both come from root finders with ~1e-10..1e-12 absolute tolerances
            V("gamma_vs_position", "gamma=%.15g but the distance from the point to its primary is %.15g" % (gamma, near), gamma, near)
        # independent quintic: equilibrium condition written in gamma (from the accelerations, not from the library's coefficients)
        gm = mp.mpf(gamma)
        xg = {1: 1 - mum - gm, 2: 1 - mum + gm, 3: -mum - gm}[idx]
        axg, _ = _accel_mp(xg, mp.mpf(0), mum)
        if abs(float(axg)) > 1e-8 * (1 + 1 / gamma ** 2):
            V("gamma_not_root", "gamma=%.15g does not satisfy the equilibrium (quintic) condition: residual %.3e" % (gamma, float(axg)), float(axg), 0.0)
    # linear modes vs eigenvalues of the reference Jacobian
    J = _jac_ref(pos, mum)
    ev = [complex(e) for e in mp.eig(J)[0]]
    re = sorted([abs(e.real) for e in ev if abs(e.imag) < 1e-9 and abs(e.real) > 1e-9])
    im = sorted({round(abs(e.imag), 10) for e in ev if abs(e.real) < 1e-9 and abs(e.imag) > 1e-12})
    info["ref_eigs"] = {"real": re[-1:] or None, "imag": im}
    above_routh = (not collinear) and mu > ROUTH
    try:
        modes = pt.linear_modes
    except Exception as exc:
        if above_routh:
            info["modes"] = "rejected above Routh"
            return viol, info
        V("linear_modes_raises", "linear_modes raises %s: %s (reference eigenvalues: real %s, imaginary %s)" % (type(exc).__name__, str(exc)[:120], re[-1:], im))
        modes = None
    if modes is not None:
        if collinear:
            lam, w1, w2 = [float(v) for v in modes[:3]]
            # vertical frequency = sqrt(-d az/dz) ; planar the other one
            wv = math.sqrt(abs(float(J[5, 2])))
            planar = [w for w in im if abs(w - wv) > 1e-7 * max(1.0, wv)] or im
            exp = (re[-1] if re else float("nan"), max(planar), wv)
            for nm, got, ex in (("lambda", lam, exp[0]), ("omega_planar", w1, exp[1]), ("omega_vertical", w2, exp[2])):
                if not abs(got - ex) <= 1e-7 * max(1.0, abs(ex)):
                    V("modes/%s" % nm, "%s=%.12g but the linearised equations at the point have %.12g" % (nm, got, ex), got, ex)
        else:
            got = sorted(abs(float(v)) for v in modes if v is not None)
            exp = sorted(im)
            if above_routh:
                V("modes_above_routh", "frequencies %s reported above the Routh ratio" % (got,), got, None)
            elif len(exp) != 3 or any(abs(a - b) > 1e-7 for a, b in zip(got, exp)):
                V("modes/triangular", "frequencies %s but the linearised equations have %s" % (got, exp), got, exp)
    # normal form matrix
    try:
        C, Cinv = pt.normal_form_transform
        C = np.asarray(C, dtype=float)
    except Exception as exc:
        if not above_routh and modes is not None:
            V("normal_form_raises", "normal_form_transform raises %s: %s" % (type(exc).__name__, str(exc)[:120]))
        C = None
    if C is not None and modes is not None:
        Jc = np.zeros((6, 6)); Jc[:3, 3:] = np.eye(3); Jc[3:, :3] = -np.eye(3)
        sc = 1 + float(np.max(np.abs(C))) ** 2
        S = C.T @ Jc @ C - Jc
        if float(np.max(np.abs(S))) > 1e-8 * sc:
            V("normal_form/not_symplectic", "C^T J C - J has max entry %.3e" % float(np.max(np.abs(S))), float(np.max(np.abs(S))), 0.0)
        if float(np.max(np.abs(C @ np.asarray(Cinv) - np.eye(6)))) > 1e-8 * sc:
            V("normal_form/inverse", "C @ Cinv != I")
        if collinear:
            c2 = float(pt.dynamics.cn(2))
            # H2 = 1/2 (px^2+py^2+pz^2) + y px - x py - c2 x^2 + c2/2 y^2 + c2/2 z^2 in (x,y,z,px,py,pz)
            Hs = np.zeros((6, 6))
            Hs[3, 3] = Hs[4, 4] = Hs[5, 5] = 1.0
            Hs[1, 3] = Hs[3, 1] = 1.0
            Hs[0, 4] = Hs[4, 0] = -1.0
            Hs[0, 0] = -2 * c2; Hs[1, 1] = c2; Hs[2, 2] = c2
            N = C.T @ Hs @ C
            lam, w1, w2 = [float(v) for v in modes[:3]]
            T = np.zeros((6, 6))
            T[0, 3] = T[3, 0] = lam
            T[1, 1] = T[4, 4] = w1
            T[2, 2] = T[5, 5] = w2
            if float(np.max(np.abs(N - T))) > 1e-7 * (1 + float(np.max(np.abs(T)))):
                V("normal_form/h2_not_reduced", "C^T Hess(H2) C is not the pattern of lambda q1 p1 + w1/2 (q2^2+p2^2) + w2/2 (q3^2+p3^2): max deviation %.3e" % float(np.max(np.abs(N - T))), N, T)
        elif not above_routh:
            # triangular points: H2 = 1/2 p^2 + y px - x py - 1/2 sum U_ij x_i x_j with U the gravitational potential (its Hessian is invariant under the
            # rotation by pi between the expansion frame and the synodic frame); Hessian of U by 40-digit central differences of the reference accelerations
            Jr = _jac_ref(pos, mum)     # d(acceleration)/d(position) = Omega_ij ; U_ij = Omega_ij - diag(1,1,0)
            Om = np.array([[float(Jr[3 + i, j]) for j in range(3)] for i in range(3)])
            Uh = Om - np.diag([1.0, 1.0, 0.0])
            Hs = np.zeros((6, 6))
            Hs[3, 3] = Hs[4, 4] = Hs[5, 5] = 1.0
            Hs[1, 3] = Hs[3, 1] = 1.0
            Hs[0, 4] = Hs[4, 0] = -1.0
            Hs[:3, :3] = -Uh
            N = C.T @ Hs @ C
            w = [float(v) for v in modes[:3]]
            T = np.zeros((6, 6))
            for i in range(3):
                T[i, i] = T[i + 3, i + 3] = w[i]
            # the expansion frame is the synodic frame rotated by pi: the Hessian is the same, so C must reduce it as is
            if float(np.max(np.abs(N - T))) > 1e-6 * (1 + float(np.max(np.abs(T)))) * (1 + float(np.max(np.abs(C))) ** 2):
                V("normal_form/h2_not_reduced", "triangular point: C^T Hess(H2) C is not diag(w1,w2,wz | w1,w2,wz) = %s: max deviation %.3e" % (w, float(np.max(np.abs(N - T)))), N, T)
    # c_n
    if collinear and gamma is not None:
        ref = _cn_ref(float(mu), gamma, name, 8)
        got = [float(pt.dynamics.cn(n)) for n in range(2, 9)]
        ok = False
        for orient in (+1, -1):
            exp = ref[orient][2:9]
            if all(abs(a - b) <= 1e-8 * (1 + abs(b)) for a, b in zip(got, exp)):
                ok = True
        if not ok:
            exp = ref[+1][2:9]
            k = int(np.argmax([abs(abs(a) - abs(b)) / (1 + abs(b)) for a, b in zip(got, exp)]))
            V("cn", "c_n for n=2..8 = %s do not match the Taylor coefficients of the potential %s (either orientation); worst n=%d" % (got, exp, k + 2), got, exp)
    return viol, info


def k_mu(params):
    System = _L["System"]
    viol = {}
    n = 0
    nontriv = 0
    rows = []
    for entry in params["systems"]:
        if isinstance(entry, list):
            system = System.from_bodies(entry[0], entry[1])
            tag = "%s-%s mu=%.6g" % (entry[0], entry[1], system.mu)
        else:
            system = System.from_mu(entry)
            tag = "mu=%.9g" % entry
        mu = float(system.mu)
        for name in ("L1", "L2", "L3", "L4", "L5"):
            n += 1
            vs, info = check_point(system, mu, name, tag)
            if not any(v["key"].endswith("not_returned") for v in vs):
                nontriv += 1
            for v in vs:
                # key carries the mu class so that known findings stay specific
                v["key"] = v["key"] + ("/mu<3e-9" if mu < 3e-9 else "/mu<=2e-6" if mu <= 2e-6 else "")
                viol.setdefault(v["key"], v)
        rows.append(tag)
    return res(evals=n, nontrivial=nontriv, viol=list(viol.values()), sample={"systems": rows[:3], "points_checked": n})


def k_point_one(params):
    System = _L["System"]
    system = System.from_mu(params["mu"])
    vs, info = check_point(system, float(system.mu), params["point"], "mu=%.9g" % params["mu"])
    mu = float(system.mu)
    for v in vs:
        v["key"] = v["key"] + ("/mu<3e-9" if mu < 3e-9 else "/mu<=2e-6" if mu <= 2e-6 else "")
    return res(viol=vs, nontrivial=1)


def k_history(params):
    """access histories, in a newly forked process: on each of the given systems (created in the given order) the five points are visited in the
    given order and every visit is checked in full; then every point of every system is visited again in reverse order.  The answer for
    (system, point) must not depend on what was asked before -- of the same system or of another one."""
    System = _L["System"]
    viol = {}
    n = nt = 0
    systems = []
    names = []
    for entry in params["systems"]:
        system = System.from_bodies(entry[0], entry[1]) if isinstance(entry, list) else System.from_mu(entry)
        systems.append((system, "%s mu=%.6g" % (entry, system.mu)))
    visits = [(si, nm) for si in range(len(systems)) for nm in params["order"]]
    visits = visits + visits[::-1]
    for k, (si, nm) in enumerate(visits):
        system, tag = systems[si]
        names.append("%d:%s" % (si, nm))
        vs, info = check_point(system, float(system.mu), nm, tag)
        n += 1
        nt += 1
        for v in vs:
            key = "history/" + v["key"]
            viol.setdefault(key, violation(key, "visit %d of the access sequence %s (systems %s): %s" % (k + 1, names, [t for _, t in systems], v["what"]), v["observed"], v["expected"], ("history", params)))
    return res(evals=n, nontrivial=nt, viol=list(viol.values()), sample={"systems": [t for _, t in systems], "visits": len(visits)})


FRESH_KINDS = ("history",)
KINDS = {"mu": k_mu, "point_one": k_point_one, "history": k_history}


def cases(tier, seed):
    from hiten.utils.constants import Constants

    pairs = [[p, s] for p, d in Constants.orbital_distances.items() for s in d]
    o = seed_offsets(seed, 1, 0.2)
    nl = 40 if tier != "quick" else 24
    ladder = [float(v) for v in np.exp(np.linspace(math.log(2e-9), math.log(0.5), nl) + 0.0)]
    ladder = [m * (1 + 0.1 * o[0]) if 1e-8 < m < 0.4 else m for m in ladder]
    special = [ROUTH * (1 - 1e-6), ROUTH * (1 + 1e-3), 0.5, 1e-3, 0.01215]
    out = []
    for i in range(0, len(pairs), 3):
        out.append(("mu", {"systems": pairs[i:i + 3]}))
    allmu = ladder + special
    for i in range(0, len(allmu), 3):
        out.append(("mu", {"systems": allmu[i:i + 3]}))
    # access histories (newly forked process each): two systems in both creation orders x point orders (each point first once, ascending and descending)
    orders = [["L1", "L2", "L3", "L4", "L5"], ["L5", "L4", "L3", "L2", "L1"], ["L2", "L1", "L4", "L3", "L5"], ["L3", "L5", "L1", "L2", "L4"], ["L4", "L2", "L5", "L3", "L1"]]
    pairs_h = [[0.01215, 1e-3], [1e-3, 0.01215], [["earth", "moon"], 0.01215], [0.01215, ["earth", "moon"]]]
    if tier != "quick":
        pairs_h += [[0.03, 0.04], [0.04, 0.03], [["sun", "earth"], ["sun", "jupiter"]], [["sun", "jupiter"], ["sun", "earth"]]]
    for ph in pairs_h:
        for od in (orders[:3] if tier == "quick" else orders):
            out.append(("history", {"systems": ph, "order": od}))
    return out
