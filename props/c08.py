"""C08 - the Lie-series normal form removes the right terms by a canonical transformation.

(i)   term structure, exhaustive over all monomials of degree 3..N of the outputs;
(ii)  H_new(z) - H_old(Phi(z)) = O(|z|^(N+1)) with Phi the library's own forward series;
(iii) DPhi^T J DPhi - J = O(|z|^N)   (Jacobian of the six coordinate series);
(iv)  Phi_inverse(Phi(z)) - z = O(|z|^(N+1));
on the pipeline (mu x L1/L2 x N) and on synthetic Hamiltonians (true quadratic part + one cubic /
quartic monomial at a time) fed directly to the Lie routines.
"""
import math

import numpy as np

from engine.core import res, violation, seed_offsets
from engine import refpoly as R

ID = "C08"
LEVEL = "exploration"
WORKERS = {"quick": 10, "thorough": 14}
RULE = ("every sequence of <= 3 requests {PN, FN, F, I, CMR} on one pipeline followed by all checks; complete product mu x {L1,L2} x N x (all monomials of degree 3..N for the term structure; 24 complex/real directions x 5-rung radius ladder for the three exponent statements); "
        "synthetic programs: every cubic monomial (56) switched on alone on top of the true quadratic part (thorough: + every quartic monomial, 126); "
        "non-trivial = ladder with >= 2 halvings above the floor / monomial of degree >= 3 examined; distinct = (mu, point, N, direction) and (program)")
ASSUMPTIONS = [
    "the library's forward series maps new (normal-form) coordinates to old (complex modal) ones, as used by CenterManifold.to_synodic",
    "full normal form: non-resonant = any exponent pair (k_qi, k_pi) unequal (frequencies are rationally independent for the mass ratios used)",
    "radius r0 = 0.08 in modal coordinates; exponent = median of the last pairwise ratios above the rounding floor, threshold declared - 0.75",
]

_L = {}


def worker_init():
    if _L:
        return
    from hiten.system.base import System
    from hiten.system.center import CenterManifold
    from hiten.algorithms.polynomial import base as pb
    from hiten.algorithms.polynomial import operations as ops
    from hiten.algorithms.hamiltonian.center import _lie as clie
    from hiten.algorithms.hamiltonian.normal import _lie as nlie

    _L.update(System=System, CM=CenterManifold, pb=pb, ops=ops, clie=clie, nlie=nlie)


def directions(off):
    out = []
    base = np.array([1.0, 0.8, 0.6, 0.7, 0.9, 0.5])
    for m in (0b000000, 0b101010, 0b010101, 0b110011, 0b001110, 0b111000, 0b100101, 0b011011):
        v = np.array([1.0 if (m >> k) & 1 else -1.0 for k in range(6)]) * base
        out.append((v / np.linalg.norm(v)).astype(np.complex128))
        w = v * np.array([1, 1j, 1, 1j, -1j, 1]) + 0.3j * v[::-1]
        out.append(w / np.linalg.norm(w))
    for i in range(6):
        e = np.zeros(6, dtype=np.complex128)
        e[i] = 1.0
        e[(i + 1) % 6] = 0.3 + off
        out.append(e / np.linalg.norm(e))
    # points satisfying the reality condition of the complexified elliptic pairs are covered by C09
    return out


def _slope(errs, floor):
    m = 0
    while m + 1 < len(errs) and errs[m] > floor and errs[m + 1] > floor:
        m += 1
    if m == 0:
        return 0, None
    pairs = [math.log2(errs[i] / errs[i + 1]) for i in range(m)]
    tail = sorted(pairs[-3:])
    return m, tail[len(tail) // 2]


def _iter_coeffs(poly, clmo, dmin, dmax):
    pb = _L["pb"]
    for d in range(dmin, min(dmax, len(poly) - 1) + 1):
        a = np.asarray(poly[d])
        for pos in np.nonzero(a)[0]:
            yield d, tuple(int(x) for x in pb._decode_multiindex(int(pos), d, clmo)), complex(a[pos])


def check_structure(poly, clmo, N, mode, scale, V, what):
    n = 0
    dmax = {d: max(scale, float(np.max(np.abs(np.asarray(poly[d])))) if len(poly[d]) else scale) for d in range(min(N, len(poly) - 1) + 1)}
    for d, k, c in _iter_coeffs(poly, clmo, 3, N):
        n += 1
        if abs(c) <= 1e-11 * dmax[d]:   # rounding noise of the Lie series relative to the size of the kept coefficients of that degree
            continue
        if k[0] != k[3]:
            V("structure/%s/hyperbolic" % mode, "%s: monomial %s of degree %d with k_q1 != k_p1 has coefficient %s" % (what, k, d, c), c, 0.0)
            return n
        if mode == "full" and (k[1] != k[4] or k[2] != k[5]):
            V("structure/full/nonresonant", "%s: non-resonant monomial %s of degree %d has coefficient %s" % (what, k, d, c), c, 0.0)
            return n
    return n


def check_ladders(H_old, H_new, fwd, inv, N, psi, clmo, enc, dirs, r0, V, what, stats):
    ops = _L["ops"]

    def ev(poly, z):
        return complex(ops._polynomial_evaluate(poly, z, clmo))

    def Phi(exp, z):
        return np.array([ev(exp[i], z) for i in range(6)], dtype=np.complex128)

    jac = [ops._polynomial_jacobian(fwd[i], N, psi, clmo, enc) for i in range(6)]
    J = np.zeros((6, 6)); J[:3, 3:] = np.eye(3); J[3:, :3] = -np.eye(3)
    nlad = 0
    nontriv = 0
    for u in dirs:
        eH, eC, eI = [], [], []
        for k in range(5):
            z = (r0 * 2.0 ** (-k)) * u
            w = Phi(fwd, z)
            eH.append(abs(ev(H_new, z) - ev(H_old, w)))
            D = np.array([[ev(jac[i][j], z) for j in range(6)] for i in range(6)], dtype=np.complex128)
            eC.append(float(np.max(np.abs(D.T @ J @ D - J))))
            if inv is not None:
                eI.append(float(np.max(np.abs(Phi(inv, w) - z))))
        nlad += 1
        scH = abs(ev(H_old, r0 * u)) * 1e-13 + 1e-18
        for name, errs, q, floor in (("conjugacy", eH, N + 1, scH * 30), ("canonicity", eC, N, 3e-13), ("inverse", eI, N + 1, 3e-15)):
            if not errs:
                continue
            m, sl = _slope(errs, floor)
            if m >= 2:
                nontriv += 1
                stats["min_margin_" + name] = min(stats.get("min_margin_" + name, 99.0), sl - q)
                if sl < q - 0.75:
                    V("ladder/%s" % name, "%s: %s error shrinks with exponent %.2f < %d along %s: %s" % (what, name, sl, q, np.round(u, 2).tolist(), ["%.2e" % e for e in errs]), errs, q)
    return nlad, nontriv


def _check_pipe(pipe, N, params, V, dirs_step=1, what_suffix=""):
    pb, ops, clie = _L["pb"], _L["ops"], _L["clie"]
    H_old = pipe.get_hamiltonian("complex_modal")
    H_pn = pipe.get_hamiltonian("complex_partial_normal")
    psi, clmo = H_old.dynamics.psi, H_old.dynamics.clmo
    enc = pb._create_encode_dict_from_clmo(clmo)
    scale = max(float(np.max(np.abs(np.asarray(H_old.poly_H[2])))), 1e-12)
    stats = {}
    n = check_structure(H_pn.poly_H, clmo, N, "partial", scale, V, "complex_partial_normal" + what_suffix)
    # quadratic part must be untouched by the normalisation
    d2 = float(np.max(np.abs(np.asarray(H_pn.poly_H[2]) - np.asarray(H_old.poly_H[2]))))
    if d2 > 1e-12 * scale:
        V("structure/h2_changed", "the quadratic part changed by %.3e during the normalisation" % d2, d2, 0.0)
    fwd = pipe.get_lie_expansions(inverse=False, tol=1e-30)
    inv = pipe.get_lie_expansions(inverse=True, tol=1e-30)
    dirs = directions(params["off"])[::dirs_step]
    nl, nt = check_ladders(H_old.poly_H, H_pn.poly_H, fwd, inv, N, psi, clmo, enc, dirs, params["r0"], V, "partial normal form" + what_suffix, stats)
    n += nl
    nontriv = nt
    # full normal form
    try:
        H_fn = pipe.get_hamiltonian("complex_full_normal")
        n += check_structure(H_fn.poly_H, clmo, N, "full", scale, V, "complex_full_normal" + what_suffix)
        G = pipe.get_generating_functions("full")
        fwd_f = clie._lie_expansion(G.poly_G, N, psi, clmo, 1e-30, inverse=False, sign=1, restrict=False)
        inv_f = clie._lie_expansion(G.poly_G, N, psi, clmo, 1e-30, inverse=True, sign=-1, restrict=False)
        nl, nt = check_ladders(H_old.poly_H, H_fn.poly_H, fwd_f, inv_f, N, psi, clmo, enc, dirs[::3], params["r0"] * 0.6, V, "full normal form" + what_suffix, stats)
        n += nl
        nontriv += nt
    except Exception as exc:
        V("full/raises", "full normal form cannot be computed: %s: %s" % (type(exc).__name__, str(exc)[:160]))
    return n, nontriv, stats


def k_pipeline(params):
    mu, Ln, N = params["mu"], params["point"], params["N"]
    system = _L["System"].from_mu(mu)
    pt = system.get_libration_point(Ln)
    cm = _L["CM"](pt, N)
    pipe = cm.dynamics.pipeline
    tag = "mu=%g L%d N=%d" % (mu, Ln, N)
    viol = {}

    def V(key, what, obs=None, exp=None):
        viol.setdefault(key, violation(key, what + " [%s]" % tag, obs, exp))

    n, nontriv, stats = _check_pipe(pipe, N, params, V)
    return res(evals=n, nontrivial=nontriv, viol=list(viol.values()), stats=stats, sample={"tag": tag, "checked": n, **{k: round(v, 2) for k, v in stats.items()}})


HIST_OPS = {
    "PN": lambda pipe, cm: pipe.get_hamiltonian("complex_partial_normal"),
    "FN": lambda pipe, cm: pipe.get_hamiltonian("complex_full_normal"),
    "F": lambda pipe, cm: pipe.get_lie_expansions(inverse=False, tol=1e-30),
    "I": lambda pipe, cm: pipe.get_lie_expansions(inverse=True, tol=1e-30),
    "CMR": lambda pipe, cm: pipe.get_hamiltonian("center_manifold_real"),
}


def k_pipeline_history(params):
    """every sequence of <= depth requests {partial normal form, full normal form, forward expansions, inverse expansions, centre-manifold
    Hamiltonian} on one freshly built pipeline; afterwards the pipeline must still satisfy every statement of the property"""
    import itertools

    mu, Ln, N = params["mu"], params["point"], params["N"]
    viol = {}
    n = nt = 0
    nseq = 0
    for depth in range(0, params["depth"]):
        for rest in itertools.product(sorted(HIST_OPS), repeat=depth):
            seq = (params["first"],) + rest
            system = _L["System"].from_mu(mu)
            pt = system.get_libration_point(Ln)
            cm = _L["CM"](pt, N)
            pipe = cm.dynamics.pipeline
            tag = "mu=%g L%d N=%d after the requests %s on the same pipeline" % (mu, Ln, N, list(seq))

            def V(key, what, obs=None, exp=None):
                viol.setdefault("history/" + key, violation("history/" + key, what + " [%s]" % tag, obs, exp, ("pipeline_history", params)))
            try:
                for op in seq:
                    HIST_OPS[op](pipe, cm)
            except Exception as exc:
                V("raises", "request sequence raises %s: %s" % (type(exc).__name__, str(exc)[:120]))
                continue
            a, b, _ = _check_pipe(pipe, N, params, V, dirs_step=6)
            n += a
            nt += b
            nseq += 1
    return res(evals=n, nontrivial=nt, viol=list(viol.values()), stats={"request_histories": nseq}, sample={"mu": mu, "point": Ln, "N": N, "histories": nseq})


def k_synthetic(params):
    """true quadratic part + one higher-order monomial switched on alone, fed directly to the Lie routines"""
    pb, ops, clie, nlie = _L["pb"], _L["ops"], _L["clie"], _L["nlie"]
    from numba.typed import List

    mu, Ln, N = params["mu"], params["point"], params["N"]
    system = _L["System"].from_mu(mu)
    pt = system.get_libration_point(Ln)
    cm = _L["CM"](pt, 2)
    H2 = cm.dynamics.pipeline.get_hamiltonian("complex_modal").poly_H[2]
    psi, clmo = pb._init_index_tables(N)
    enc = pb._create_encode_dict_from_clmo(clmo)
    monos = [k for d in params["degs"] for k in R.monomials(d)]
    monos = monos[params["lo"]:params["hi"]:params.get("stride", 1)]
    viol = {}
    n = 0
    nontriv = 0
    stats = {}
    dirs = directions(params["off"])[::4]
    for mi, k in enumerate(monos):
        tag = "mu=%g L%d N=%d perturbation=%s" % (mu, Ln, N, k)

        def V(key, what, obs=None, exp=None):
            viol.setdefault("synthetic/" + key, violation("synthetic/" + key, what + " [%s]" % tag, obs, exp))

        poly = List()
        for d in range(N + 1):
            a = np.zeros(int(psi[6, d]), dtype=np.complex128)
            if d == 2:
                a[:] = np.asarray(H2)
            if d == sum(k):
                a[pb._encode_multiindex(np.array(k, dtype=np.int64), d, enc)] = 0.1 * (1 + 0.5j if mi % 2 else 1.0)
            poly.append(a)
        for mode, fn in (("partial", clie._lie_transform), ("full", nlie._lie_transform)):
            try:
                trans, G, elim = fn(pt, poly, psi, clmo, N)
            except Exception as exc:
                V("raises/" + mode, "%s Lie transform raises %s: %s" % (mode, type(exc).__name__, str(exc)[:120]))
                continue
            n += check_structure(trans, clmo, N, mode, 1.0, V, "%s normal form of the synthetic Hamiltonian" % mode)
            fwd = clie._lie_expansion(G, N, psi, clmo, 1e-30, inverse=False, sign=1, restrict=False)
            inv = clie._lie_expansion(G, N, psi, clmo, 1e-30, inverse=True, sign=-1, restrict=False)
            nl, nt = check_ladders(poly, trans, fwd, inv, N, psi, clmo, enc, dirs, params["r0"], V, "%s normal form (synthetic)" % mode, stats)
            n += nl
            nontriv += nt
    return res(evals=n, nontrivial=nontriv, viol=list(viol.values()), stats=stats, sample={"mu": mu, "point": Ln, "N": N, "programs": len(monos), "first": list(monos[0]) if monos else None})


KINDS = {"pipeline": k_pipeline, "synthetic": k_synthetic, "pipeline_history": k_pipeline_history}


def cases(tier, seed):
    o = seed_offsets(seed, 1, 0.1)
    out = []
    mus = [0.01215, 9.5e-4] if tier == "quick" else [9.5e-4, 0.01215, 0.05]
    Ns = [3, 4, 6] if tier == "quick" else [3, 4, 5, 6, 7, 8]
    for mu in mus:
        for Ln in (1, 2):
            for N in Ns:
                out.append(("pipeline", {"mu": mu, "point": Ln, "N": N, "r0": 0.08, "off": o[0]}))
    # synthetic programs: 56 cubic monomials in slices (thorough: + 126 quartic ones)
    for lo in range(0, 56, 8):
        out.append(("synthetic", {"mu": 0.01215, "point": 1, "N": 4, "degs": [3], "lo": lo, "hi": lo + 8, "r0": 0.08, "off": o[0]}))
    # gap programs (a homogeneous part below the perturbation vanishes): quick = every 9th quartic monomial, thorough = all of them (below)
    out.append(("synthetic", {"mu": 0.01215, "point": 2, "N": 5, "degs": [4], "lo": 0, "hi": 126, "stride": 9, "r0": 0.08, "off": o[0]}))
    # request histories on one pipeline: all sequences of <= 3 (thorough 4) requests, split by first request
    for first in sorted(HIST_OPS):
        out.append(("pipeline_history", {"mu": 0.01215, "point": 1, "N": 4, "first": first, "depth": 3 if tier == "quick" else 4, "r0": 0.08, "off": o[0]}))
        if tier != "quick":
            out.append(("pipeline_history", {"mu": 9.5e-4, "point": 2, "N": 5, "first": first, "depth": 3, "r0": 0.08, "off": o[0]}))
    if tier != "quick":
        for lo in range(0, 126, 9):
            out.append(("synthetic", {"mu": 0.01215, "point": 2, "N": 5, "degs": [4], "lo": lo, "hi": lo + 9, "r0": 0.08, "off": o[0]}))
    return out
