#!/bin/bash
# runs every registered quick check for several VERIF_SEED values; prints only non-clean results
cd /verif
for sd in "$@"; do
  for id in $(python3 -c "import json;print(' '.join(c['property_id'] for c in json.load(open('MANIFEST.json'))['checks']))"); do
    VERIF_SEED=$sd ./check $id > .cache/seed_${sd}_$id.log 2>&1; rc=$?
    echo "seed=$sd $id rc=$rc $(grep -c '^VIOLATION' .cache/seed_${sd}_$id.log) viol; $(grep 'key=' .cache/seed_${sd}_$id.log | head -2 | cut -c1-200)"
  done
done
