#!/bin/bash
# runs the quick (or given tier) command of every check registered in MANIFEST.json, one after the other; prints a summary
cd /verif
TIER="${1:-quick}"; shift
IDS="$@"
[ -z "$IDS" ] && IDS=$(python3 -c "import json;print(' '.join(c['property_id'] for c in json.load(open('MANIFEST.json'))['checks']))")
for id in $IDS; do
  s=$(date +%s)
  ./check $id --tier $TIER > .cache/run_$id.log 2>&1; rc=$?
  e=$(date +%s)
  echo "$id rc=$rc $((e-s))s $(grep -c '^VIOLATION' .cache/run_$id.log) violations, $(grep -c '^KNOWN-FINDING' .cache/run_$id.log) known; $(tail -1 .cache/run_$id.log | cut -c1-120)"
done
