#!/bin/bash
# usage: tools/fullsuite_mut.sh <seed id> ...   -- for each filed seeded change: scratch worktree of /repo HEAD, apply, run the whole pinned
# suite (guard off, 4 numba threads, 5 xdist workers), record the result in /verif/seeded/<id>/meta.json, remove the worktree
for SID in "$@"; do
  D=/verif/seeded/$SID; WT=/tmp/fs_$SID
  [ -f $D/patch.diff ] || { echo "$SID: no patch"; continue; }
  git -C /repo worktree remove --force $WT 2>/dev/null
  git -C /repo worktree add -q $WT HEAD || exit 2
  ( cd $WT && git apply $D/patch.diff ) || { echo "$SID: patch failed"; git -C /repo worktree remove --force $WT; continue; }
  unset HITEN_VERIF
  ( cd $WT && PYTHONPATH=$WT/src NUMBA_NUM_THREADS=4 OMP_NUM_THREADS=4 OMP_WAIT_POLICY=passive PYTHONWARNINGS=ignore NUMBA_CACHE_DIR=/tmp/fs_cache_$SID \
      nice -n 10 /venv/bin/python -m pytest -q -p no:cacheprovider --timeout=1800 -n 5 --junitxml=/tmp/fs_$SID.xml > /tmp/fs_$SID.log 2>&1 )
  # tests that write to the shared relative path results/... race under xdist: re-run whatever did not pass serially, once
  RETRY=$(/venv/bin/python - /tmp/fs_$SID.xml <<'PY'
import json, sys, xml.etree.ElementTree as ET
base = set(json.load(open('/root/.vp/BASELINE.json'))['stable_pass'])
passed = set()
for tc in ET.parse(sys.argv[1]).getroot().iter('testcase'):
    if not any(ch.tag in ('failure', 'error', 'skipped') for ch in tc):
        passed.add(tc.get('classname') + '::' + tc.get('name'))
out = []
for m in sorted(base - passed)[:20]:
    cls, name = m.split('::', 1)
    out.append(cls.replace('.', '/') + '.py::' + name)
print(' '.join(out))
PY
)
  if [ -n "$RETRY" ]; then
    ( cd $WT && PYTHONPATH=$WT/src NUMBA_NUM_THREADS=4 OMP_NUM_THREADS=4 OMP_WAIT_POLICY=passive PYTHONWARNINGS=ignore NUMBA_CACHE_DIR=/tmp/fs_cache_$SID \
        /venv/bin/python -m pytest -q -p no:cacheprovider --timeout=1800 --junitxml=/tmp/fs_$SID.retry.xml $RETRY > /tmp/fs_$SID.retry.log 2>&1 )
  else
    rm -f /tmp/fs_$SID.retry.xml
  fi
  SUM=$(/venv/bin/python - /tmp/fs_$SID.xml $D/meta.json /tmp/fs_$SID.retry.xml <<'PY'
import json, sys, xml.etree.ElementTree as ET
base = set(json.load(open('/root/.vp/BASELINE.json'))['stable_pass'])
passed = set()
import os
retried = 0
for f in (sys.argv[1], sys.argv[3]):
    if not os.path.exists(f):
        continue
    for tc in ET.parse(f).getroot().iter('testcase'):
        if not any(ch.tag in ('failure', 'error', 'skipped') for ch in tc):
            nm = tc.get('classname') + '::' + tc.get('name')
            if f == sys.argv[3] and nm not in passed:
                retried += 1
            passed.add(nm)
missing = sorted(base - passed)
m = json.load(open(sys.argv[2]))
m.setdefault("confirmed", {})["full_pinned_suite_with_patch"] = "%d of %d pinned tests pass" % (len(base & passed), len(base)) + ("" if not retried else " (%d of them on a serial re-run: shared results/ path races under xdist)" % retried) + ("" if not missing else "; NOT passing: " + ", ".join(missing[:10]))
json.dump(m, open(sys.argv[2], "w"), indent=1)
print("%d/%d%s" % (len(base & passed), len(base), "" if not missing else " MISSING " + " ".join(missing[:5])))
PY
)
  echo "$SID full suite: $SUM"
  git -C /repo worktree remove --force $WT; rm -rf /tmp/fs_cache_$SID /tmp/fs_$SID.xml /tmp/fs_$SID.retry.xml
done
