#!/bin/bash
# usage: tools/try_mut.sh <patch.diff> <PROP> [extra check args]  -- applies a seeded change to /repo, runs the check, reverts
P="$1"; shift; ID="$1"; shift
cd /repo || exit 2
if [ -n "$(git status --porcelain --untracked-files=no)" ]; then echo "repo dirty, refusing"; exit 2; fi
git apply "$P" || { echo "patch does not apply"; exit 2; }
cd /verif && ./check "$ID" "$@" 2>&1 | grep -E "VIOLATION|KNOWN-FINDING|HARNESS|key=|done:" | cut -c1-330
rc=${PIPESTATUS[0]}
git -C /repo checkout -- .
echo "exit=$rc"
