#!/usr/bin/env python3
"""prints the prompt given to an independent sub-agent that seeds a property-breaking change.
usage: agent_prompt.py C19 /tmp/wt_c19 /tmp/mut_c19 [n_changes]"""
import json, sys
pid, wt, out = sys.argv[1], sys.argv[2], sys.argv[3]
n = int(sys.argv[4]) if len(sys.argv) > 4 else 2
p = [json.loads(l) for l in open('/verif/properties.jsonl') if json.loads(l)['id'] == pid][0]
print(f"""You are helping to evaluate a verification effort for the Python library `hiten` (a numba-accelerated toolkit for the circular restricted three-body problem). Your job is to act as a *bug seeder*: produce {n} different, realistic code changes to the library that each BREAK the semantic property below while the library still imports and its existing test-suite still passes.

PROPERTY ({pid}): {p['title']}
Statement: {p['statement']}
Quantified over: {p['quantifier']['text']}
Code it is anchored in (relative to the repository root): {', '.join(p['anchors']['files'])}

WORKSPACE: you have your own scratch git worktree of the repository at {wt} (source under {wt}/src/hiten). Work ONLY there. Never touch /repo or /verif (do not read /verif either). Run Python as `cd {wt} && PYTHONPATH={wt}/src /venv/bin/python ...` so that your worktree's copy of hiten is imported (check `hiten.__file__`). There is no network. `import hiten` takes ~17 s and numba JIT-compiles on first call, so scripts take 20-60 s; be patient and keep scripts small. The machine is shared: ALWAYS prefix every python/pytest command with `NUMBA_NUM_THREADS=4 OMP_NUM_THREADS=4 OMP_WAIT_POLICY=passive`, and never run more than one pytest process at a time.

WHAT TO PRODUCE, for each change k = 1..{n}, in the directory {out}/k/ (create it):
  1. patch.diff  - `git diff` of your change against the worktree HEAD (apply-able with `git apply`). Keep it small (a few lines), in non-test source files only. Do not edit tests.
  2. demo.py     - a small stand-alone program that exits 0 on the unmodified worktree and exits non-zero (with a short message) when the patch is applied; it must demonstrate that the PROPERTY AS STATED is violated (not merely that the code changed). Run with PYTHONPATH={wt}/src /venv/bin/python demo.py.
  3. meta.json   - {{"property": "{pid}", "summary": "...one sentence...", "needs": "...what specific input / sequence / schedule / configuration is needed for the bug to show...", "tests_run": "...which pytest modules you ran with the patch applied and their result..."}}

REQUIREMENTS FOR A GOOD CHANGE
  * It must look like a plausible maintenance mistake or "optimisation" (wrong index, sign, boundary, stale state, swapped argument, missing reset, shared buffer, off-by-one, wrong branch for a special case, two cooperating sites that each look fine alone ...), not sabotage that ordinary use exposes at once.
  * It should need something SPECIFIC to manifest: an unusual input, a particular configuration/option combination, a multi-step sequence of operations, a particular thread schedule, a boundary case. A change that breaks every call is not useful.
  * The existing tests must still pass with the change. The full suite is slow (~35 min); at minimum run the test modules that exercise the files you touched, e.g. `cd {wt} && PYTHONPATH={wt}/src /venv/bin/python -m pytest -q -p no:cacheprovider -x src/hiten/<...>/_tests/test_xxx.py` (tests live in `_tests` directories next to the code: src/hiten/algorithms/*/_tests and src/hiten/system/_tests). If a test fails because of your change, choose a different change.
  * The {n} changes must be different in kind and location from each other.
  * After writing each patch.diff, restore the worktree (`git -C {wt} checkout -- .`) and verify that demo.py passes on the clean worktree and fails with the patch applied (`git -C {wt} apply {out}/k/patch.diff`). Leave the worktree clean at the end.

Do not spend effort on anything else. When done, reply with a short list: for each change the file/function touched, one sentence on what breaks, and what is needed to trigger it.""")
