#!/bin/bash
# usage: tools/confirm_mut.sh <srcdir with patch.diff demo.py meta.json> <seed id> <PROP> <detected_by text> -- <pytest targets...>
# Confirms a seeded change in a scratch worktree (demo passes clean / fails patched, given tests pass patched) and files it under /verif/seeded/<id>/
SRC="$1"; SID="$2"; PROP="$3"; DET="$4"; shift 4; [ "$1" = "--" ] && shift
WT=/tmp/cf_$SID
git -C /repo worktree remove --force $WT 2>/dev/null
git -C /repo worktree add -q $WT HEAD || exit 2
cd $WT
export PYTHONPATH=$WT/src PYTHONWARNINGS=ignore NUMBA_NUM_THREADS=4 OMP_NUM_THREADS=4 OMP_WAIT_POLICY=passive
/venv/bin/python $SRC/demo.py > /tmp/cf_$SID.clean.log 2>&1; RC_CLEAN=$?
git apply $SRC/patch.diff || { echo "patch failed"; git -C /repo worktree remove --force $WT; exit 2; }
/venv/bin/python $SRC/demo.py > /tmp/cf_$SID.patched.log 2>&1; RC_PATCHED=$?
TESTS_OK=skipped
if [ $# -gt 0 ]; then
  /venv/bin/python -m pytest -q -p no:cacheprovider --timeout=900 -x "$@" > /tmp/cf_$SID.tests.log 2>&1 && TESTS_OK=passed || TESTS_OK=FAILED
fi
TESTSUM=$(tail -1 /tmp/cf_$SID.tests.log 2>/dev/null)
cd /; git -C /repo worktree remove --force $WT
echo "seed=$SID demo_clean_rc=$RC_CLEAN demo_patched_rc=$RC_PATCHED tests=$TESTS_OK ($TESTSUM)"
if [ $RC_CLEAN -eq 0 ] && [ $RC_PATCHED -ne 0 ] && [ "$TESTS_OK" != "FAILED" ]; then
  mkdir -p /verif/seeded/$SID
  cp $SRC/patch.diff $SRC/demo.py /verif/seeded/$SID/
  /venv/bin/python - "$SRC/meta.json" "/verif/seeded/$SID/meta.json" "$PROP" "$DET" "$TESTS_OK" "$TESTSUM" "$*" <<'PY'
import json, sys
src, dst, prop, det, tests_ok, testsum, targets = sys.argv[1:8]
try:
    m = json.load(open(src))
except Exception:
    m = {}
m["property"] = prop
m["confirmed"] = {"demo_on_clean_tree": "exit 0", "demo_with_patch": "non-zero exit", "pytest_targets_with_patch": targets, "pytest_result": "%s: %s" % (tests_ok, testsum),
                  "how": "tools/confirm_mut.sh in a scratch worktree of /repo HEAD (removed afterwards)"}
m["detected_by"] = det
json.dump(m, open(dst, "w"), indent=1)
PY
  echo "kept -> /verif/seeded/$SID"
else
  echo "NOT kept"
fi
