#!/usr/bin/env python3
"""Regenerates /verif/MANIFEST.json from the table below (keeps it schema-valid)."""
import json
import os
import subprocess
import sys

ROOT = os.path.dirname(os.path.dirname(os.path.abspath(__file__)))

# property id -> (category, technique, level text, level note, design ref)
CHECKS = {
    "C19": ("exploration",
            "bounded exhaustive enumeration of point-cloud pairs and segment pairs on the real backend vs brute-force oracle; a third of the runs repeated on a backend instance that answered another request before",
            "Every pair of point clouds with <=3 (thorough: <=4) points on the {0,1,2}^2 lattice (duplicates, collinear, coincident), "
            "x radii x tolerance menu x velocity tables is run through the real _ConnectionsBackend.run and every reported connection "
            "is checked against a brute-force oracle (mutual nearest within radius, delta-v of reported states, limit, label, order, "
            "meeting point = midpoint of the truly closest points of the local segments); all 9^4 lattice segment pairs and an "
            "irrationally sheared copy through _closest_points_on_segments_2d against the exact segment distance. Small-scope "
            "exhaustive: the code has no data-dependent branches beyond those forced by these clouds (ties, degeneracy, parallelism, thresholds hit exactly).",
            "Soundness of reported connections (the statement does not demand completeness); float tolerance 1e-9 on distances; ties accept any choice.",
            "DESIGN.md C19"),
    "C15": ("exploration",
            "bounded exhaustive enumeration of sign/magnitude patterns x detector configurations on the real detector vs reference detector; analytic crossings with interpolation-theory error bounds on a sampling ladder",
            "All patterns of section-function values from a 7-atom alphabet (strict signs, exact zeros, sub-tolerance values) of length 5 (thorough: 6, and 5 atoms "
            "length 7) x direction x linear/cubic x segment_refine 0..2 x uniform/non-uniform grids x axis/oblique normals are run through the real "
            "detect_on_trajectory and compared with a reference detector written from the statement (one hit per admissible strict sign change, none elsewhere, "
            "ordered, on the curve, on the plane); first-harmonic analytic curves give closed-form crossings for every normal/offset/direction and the hit "
            "time/state errors must obey C h^2 (linear) / C h^3 (cubic, uniform) bounds on every rung of a 3-4 rung ladder; the batch run() interface is checked against per-trajectory calls.",
            "Number of hits at samples lying on the surface is don't-care; default dedup tolerances; sub-step double crossings are outside the statement.",
            "DESIGN.md C15"),
    "C06": ("model_checking",
            "exhaustive enumeration: all multi-indices deg<=30; all basis monomial pairs vs exact reference; all thread-assignment schedules of the prange kernels under a virtual scheduler with traced arrays (conflict-freedom invariant) plus the real scheduler's knob lattice",
            "Layout bijection is decided completely (1,947,792 multi-indices). Linear/bilinear kernels are decided on all basis monomials (deg<=3 pairs, deg<=5 x 6 variables) plus "
            "colliding/dense/complex menus for the list-level operations and substitutions against an exact dict-of-monomials model. Schedule independence: the kernels' own Python "
            "source runs under a virtual prange scheduler for every assignment of non-trivial iterations to T<=3 virtual threads x 2 orders with every kernel-allocated array traced; "
            "the invariant (no cross-thread conflicting access to a cell that is ever read, thread id < thread count, result == reference) holds in every explored schedule, which implies "
            "independence of intra-iteration interleavings; the compiled kernels are additionally run for threads 1..16 x chunksize{0,1,2,3,5,8} x 3 repeats and must be bitwise equal to the exact result.",
            "py_func is the same source numba compiles; native-code interleavings are covered by the conflict-freedom argument, not enumerated; integer-valued inputs make float sums exact.",
            "DESIGN.md C06"),
    "C02": ("exploration",
            "complete enumeration of rooted trees (Butcher order conditions) on the library's own coefficient arrays + one-step conformance of every stepping kernel + step/tolerance ladders on a right-hand-side menu with closed-form solutions; one integrator instance reused over every ordered pair of problems (A, B, A)",
            "The tableau half is decided completely: every rooted tree up to the declared order (8/37/200 trees for orders 4/6/8, 17 for RK45, 200 for DOP853), the embedded error weights (RK45 E, DOP853 E3/E5) "
            "and the RK45 dense-output polynomial are checked coefficient-wise. The stepping-code half: each kernel (generic, Hamiltonian twin, centre-manifold copy) is compared after one step with a textbook step "
            "from the same table on 5 right-hand sides x 3 step sizes (also negative), and global-error ladders (4-5 rungs) on autonomous, non-autonomous, nonlinear coupled and Hamiltonian problems must show the declared exponent; "
            "adaptive integrators are run on tolerance ladders 1e-4..1e-12 x 3 output grids (dense output exercised) with the error at every requested time bounded by 300*tol and shrinking; dense-output order by a forced-step ladder.",
            "Exponent threshold p-0.75 on the overall ladder slope; reference solutions are closed forms / mpmath elliptic functions / scipy DOP853 at 1e-13; continuous ranges of step sizes and tolerances are covered on the stated ladders only.",
            "DESIGN.md C02"),
    "C01": ("exploration",
            "exhaustive state lattice (mu x base points x 3^6 offsets) on the real field/Jacobian/variational/energy functions vs a 30-digit mpmath reference and its numerically differentiated Jacobian; Lie-derivative oracle for every energy observable; energy constancy along propagated trajectories; operation histories (create system A, create B, use A, create A again, use B; all ordered pairs of mass ratios) each in a newly forked process",
            "For every lattice state the library's vector field, all 36 Jacobian entries and both blocks of the 42-D variational right-hand side (Phi = I and a dense non-symmetric Phi) are compared with a reference written in the harness "
            "(the Jacobian reference is obtained by differentiating the reference field, not by re-typing formulas). Every energy-like observable (crtbp_energy, effective_potential+kinetic_energy, energy_to_jacobi, the second Jacobi formula inside "
            "_max_rel_energy_error, orbit/libration-point energy and jacobi) must have zero Lie derivative along the library's field at spatial states, and stay constant along System.propagate for fixed 4/6/8 and adaptive 5/8.",
            "States closer than 0.02 to a primary skipped; tolerances 1e-12 (field), 1e-9 (Jacobian, relative), 2e-7*scale (Lie derivative by Richardson differences).",
            "DESIGN.md C01"),
    "C13": ("model_checking",
            "stateless exhaustive exploration of the real predictor-corrector loop: DFS over all corrector outcome sequences {accept, reject, raise} to completion, per configuration, compared step by step with a reference model of the loop",
            "The corrector is owned by the harness, so its answers are the only nondeterminism; for each of 540 (thorough: 972) configurations (stepper natural/secant x 1-D +/- and 2-D step x three target intervals x member/retry limits x "
            "step bounds x shrink policy none/x0.25/raising) every outcome sequence is followed until the real run() returns (the loop always terminates), i.e. the complete behaviour tree of the loop. Every complete run is compared with a 40-line "
            "reference model written from the property text: predictions (offset = current step for natural, |step| * unit secant for secant), family, parameter history, accepted/rejected/iteration counts, final step, clamp bounds, retry limit, "
            "stop at the first member outside the target.",
            "accepted_count counts the seed; give-up after max_retries+1 consecutive failures; initial step inside [step_min, step_max]; end-to-end orbit families are covered by C05's periodicity oracle only for single corrections.",
            "DESIGN.md C13"),
    "C05": ("fault_enumeration",
            "exhaustive enumeration of solver configurations on harness-owned residual maps with all evaluations logged, plus exceptions injected at every 1- and 2-subset of the first 12 residual evaluations; orbit families x points x mass ratios x amplitudes with independent closure propagation; solver statements on reused backend instances / stepper factories; orbit objects corrected twice (loose, then tight)",
            "Solver contract: 12 residual maps (well/ill conditioned, two roots, singular start, no root, rectangular, NaN half-space) x start lattice x tol x max_attempts x max_delta x plain/Armijo x analytic/FD Jacobian are all run through the real "
            "_NewtonBackend.run; on every execution 'returned => |R(x)|<tol recomputed independently', monotone residual norms and the step cap on every notified iterate, and reported iterations are checked; faults (exceptions) are injected at every "
            "placement of 1 (thorough: 2) among the first 12 evaluations. Orbit half: each corrected halo N/S, planar Lyapunov and vertical orbit at L1/L2 (EM, mu=0.04; thorough adds Sun-Earth and denser amplitude/tolerance ladders) is re-propagated "
            "with scipy DOP853 on a harness-side field over the reported period and must close within 1e-6.",
            "A raise of any exception type is accepted as 'raises an error'; closure bound 1e-6 (observed <= 2e-9 on correct families); known finding F15 (vertical family) is listed in known_findings.json.",
            "DESIGN.md C05"),
    "C16": ("exploration",
            "exhaustive lattice (Hamiltonian menu x states x step sizes x orders x coupling constants) on the real one-step kernel: finite-difference Jacobian symplecticity, step/unstep reversibility, fixed-omega convergence ladders, long-run energy, recorded sub-step sequence; multi-step kernel over there-and-back grids; long-run energy by quarters at three step sizes",
            "For 8 polynomial Hamiltonians (separable and non-separable, degree <= 6) x 3 generic extended states x h in {0.01,-0.05,0.2} (thorough: +-0.01,+-0.05,+-0.2) x orders 2,4,6,8 x omega {0.5,50} (thorough 0.5,5,50) the 12x12 Jacobian of _recursive_update_poly "
            "is obtained by Richardson central differences and M^T Omega M = Omega is checked for the documented two-form dQ^dP + dX^dY; step(h) then step(-h) must restore the state; with omega fixed the error ladder against a scipy reference must show the declared order; "
            "8000-20000 steps through the public class must keep the energy error bounded; the executed sub-step sequence is recorded by running the kernel's python source with the three sub-flows replaced by recorders (palindrome, weights sum to 1, triple-jump cancellation condition).",
            "Known finding F3 (orders 4/6/8 converge with exponent 2: wrong triple-jump exponent) is listed in known_findings.json - the one-line repair breaks the pinned test test_symplectic::test_final_state_error, so it is recorded rather than repaired.",
            "DESIGN.md C16"),
    "C17": ("exploration",
            "differential exploration of program variants: Hamiltonian fast path vs generic path generated by the harness from exact derivatives, all (integrator, event, direction, grid) variants x Hamiltonian menu x states; right-hand sides on a state lattice vs exact derivatives; construction histories (ordered pairs of Hamiltonians in one process, coefficient list overwritten in place); the two symplectic kernels on uniform/graded/jagged grids",
            "hamsys.rhs, _hamiltonian_rhs and dH_dQ/dH_dP are compared with exact derivatives of the polynomial (dict-of-monomials reference) on a 15-point lattice for 8 Hamiltonians; then every program variant {fixed 4,6,8; RK45; DOP853} x {no event, 2 event functions x direction -1,0,+1} x {dense grid, endpoints} "
            "is executed on the fast path and on a generic system whose vector field source is generated by the harness (compiled by the library's own create_rhs_system): states, returned derivatives, event times and event states must agree to 1e-11/1e-9.",
            "Both paths use the library's integrator code (the oracle is their agreement plus C02's absolute accuracy checks); quick tier uses 3 Hamiltonians, thorough all 8.",
            "DESIGN.md C17"),
    "C10": ("exploration",
            "exhaustive product of systems x entry points x methods x directions x flips x spans x grid sizes on the real propagation layer and raw integrators, compared with exact / reference flows and round trips; raw grids ascending, descending, zero-span, non-monotone",
            "A user system with exact flow (rotation + saddle blocks), the CR3BP, the 42-D variational system and a polynomial Hamiltonian are propagated through _propagate_dynsys, System.propagate and raw Integrator.integrate for fixed 4/6/8, adaptive 5/8 and symplectic 2/4/6, "
            "forward +-1, with and without selective flipping, spans {0,1e-9,0.5,2} (+ t0 != 0), 2..201 samples: returned times must be forward*linspace (non-positive, decreasing for -1), first sample = initial state, every sample on the exact/reference flow at the signed time, "
            "forward-then-backward returns to the start; raw integrators on descending grids must be right or raise (never a constant/wrong trajectory), non-monotone grids must raise.",
            "Zero-span grids may be rejected; tolerances derive from the step size and order; non-autonomous systems are outside the backward-flow statement.",
            "DESIGN.md C10"),
    "C11": ("exploration",
            "exhaustive product of event drivers x event functions x directions x parameter lattice (incl. crossing placement inside a step, start on/off the surface) x tolerances x spans on a system with closed-form flow; reference crossings by dense scan + root solve of the exact flow",
            "Two uncoupled oscillators are integrated as a polynomial Hamiltonian whose frozen third degree of freedom carries the event parameters, so one compiled event function covers affine, oblique, time-based and quadratic events. All 12 drivers (fixed 4/6/8, RK45, DOP853 x generic/Hamiltonian, "
            "symplectic 2/4) x direction -1/0/+1 x offsets (generic, start exactly on the surface, 1e-9 off on both sides, unreachable) x crossing placement in a step (exactly at a node, node+1e-12, 1/4, 1/2, 1-1e-9, last node of the span) x (xtol,gtol) x span before/after the first admissible crossing: "
            "reported time within xtol + (gtol+errors)/|dg/dt| of the first admissible exact crossing, state on the exact trajectory, g ~ 0, filtered directions ignored, no crossing => end of span.",
            "Sub-step double crossings and tangencies are outside sign-change detection and excluded; an exact zero at a step end in the filtered-out direction is don't-care; error budget uses the driver's own measured global error.",
            "DESIGN.md C11"),
    "C04": ("exploration",
            "exhaustive sweep catalogue pairs + mu ladder x L1..L5 against an mpmath reference (equilibrium residual, quintic, eigenvalues of the numerically differentiated Jacobian, symplecticity / H2 reduction of the normal-form matrix, Taylor coefficients c_n); access histories (two systems in both creation orders x point visiting orders) in newly forked processes",
            "All 18 catalogue pairs (enumerated from Constants.orbital_distances at run time; the property text says 19, the tree has 18) and a log ladder of 24 (thorough 40) mass ratios from 2e-9 to 0.5 plus Routh +- and special values, for all five points: the point is returned, is an equilibrium of the reference field, "
            "gamma matches the distance to its primary and the equilibrium condition, lambda/omegas equal the eigenvalues of the reference Jacobian (40-digit central differences + mpmath eig), C^T J C = J, C^T Hess(H2) C has the normal-form pattern, c_2..c_8 equal the Taylor coefficients of the primaries' potential.",
            "L4/L5 above Routh may reject; orientation of the local axis for odd c_n is pinned by C07, not here; tolerances 1e-7 relative on modes.",
            "DESIGN.md C04"),
    "C07": ("exploration",
            "exhaustive lattice mu x {L1..L5} x degree x 76 phase-space directions with radius ladders: exponent of the energy mismatch and of the pushed-forward vector-field mismatch measured on the real polynomial Hamiltonian and the library's own local->synodic map against a reference CR3BP energy/field; build histories in newly forked processes in which every ordered pair of (point, degree) expansions occurs adjacently",
            "For each mass ratio, point (collinear and triangular expansions) and degree N the polynomial built by _build_physical_hamiltonian_* is evaluated along 12 axes + 64 weighted corner directions on a 5-rung radius ladder: (E(S(z))-E(S(0)))/gamma^2 - H_N(z) must shrink like r^(N+1) and J grad H_N pushed forward by dS "
            "must match the reference CR3BP field at S(z) like r^N; the local origin must map to the point at rest and synodic2local(local2synodic(z)) = z. Exponents (not constants) are the oracle, so a wrong sign, frame, coefficient c_n or scaling shows as exponent 1-2.",
            "radius 0.35 in local units; exponent = median of the last pairwise ratios above the rounding floor, threshold declared-0.75; quick tier degrees {2,3,4,6,8} and 3 mass ratios, thorough 2..10 and 5.",
            "DESIGN.md C07"),
    "C08": ("exploration",
            "exhaustive examination of every monomial of degree 3..N of the normalised Hamiltonians (term structure) and radius ladders on a direction lattice for the three exponent statements (conjugacy, canonicity, inverse), on the pipeline and on one-monomial-at-a-time synthetic programs fed to the real Lie routines; every sequence of <= 3 requests {partial NF, full NF, forward/inverse expansions, CM Hamiltonian} on one pipeline followed by all checks",
            "For mu x {L1,L2} x N the partial normal form must have no monomial with k_q1 != k_p1 and the full normal form only exponent-balanced monomials (all coefficients examined, threshold 1e-11 of the largest coefficient of that degree); H_new(z) - H_old(Phi(z)), DPhi^T J DPhi - J and Phi^-1(Phi(z)) - z are "
            "evaluated along 22 complex/real directions on a 5-rung radius ladder with the library's own series and must shrink like r^(N+1), r^N, r^(N+1). Synthetic programs: the true quadratic part plus each of the 56 cubic monomials (thorough: + 126 quartic) alone, through _lie_transform (partial and full) and _lie_expansion.",
            "r0 = 0.08 in modal coordinates; exponent = median of the last pairwise ratios, threshold declared-0.75 (measured margins -0.07..0); resonant mass ratios are outside the alphabet.",
            "DESIGN.md C08"),
    "C09": ("exploration",
            "exhaustive direction lattice ({-1,0,1}^4 minus 0) x radius ladder through the real CenterManifold.to_synodic / to_cm / hamiltonian, plus 4 section coordinates x plane lattice x energy ladder for the 2-D conversion, against a reference CR3BP energy; every sequence of <= 3 operations {to_synodic, to_cm, degree changes, 2-D conversion} on one CenterManifold vs a fresh twin; computed section x requested section on one map",
            "For systems x {L1,L2} x N in {4,6} (thorough +8): to_cm(to_synodic(p)) - p and (E(to_synodic(p)) - E_L)/gamma^2 - H_cm(p) along all 80 non-zero directions of {-1,0,1}^4 on a 5-rung ladder must shrink like r^(N+1); 2-D section points (9 per section coordinate) converted at energies h0*4^-k must come back "
            "with the section coordinate, the plane coordinates, H_cm = h and the reference energy all converging at the same order.",
            "get_lie_expansions is memoised per pipeline instance inside the harness (it is a deterministic function recomputed on every conversion); floors scale with |E_L|/gamma^2.",
            "DESIGN.md C09"),
    "C18": ("exploration",
            "exhaustive enumeration of the conversion registry (read at run time) x points x mass ratios x degrees: every edge executed, both-direction edges composed, direct edge vs pipeline result; every substitution checked point-wise against the coordinate map on pipeline Hamiltonians and on every monomial of degree <= 3 alone + dense fills; all ordered pairs of form requests on one pipeline; both-direction edges on arbitrary polynomials, before and after a custom-tolerance call",
            "All 13 registered edges are executed on the pipeline Hamiltonian of their source form for {L1,L2} x {EM, 9.5e-4} x degree {4,6} (thorough 2..8); the 5 edge pairs registered in both directions must compose to the identity coefficient-wise; _substitute_complex/_substitute_real/_polylocal2realmodal/_polyrealmodal2local "
            "applied to 86+ arbitrary polynomials and the pipeline forms must satisfy new(x) = old(T x) on a real+complex lattice and undo each other; _solve_complex/_solve_real, modal<->local and local<->synodic (collinear and triangular) compose to the identity; _M _M_inv = I.",
            "coefficient round trips compared at 1e-9 relative (conversions clean below 1e-14..1e-12).",
            "DESIGN.md C18"),
    "C03": ("exploration",
            "exhaustive lattice mu x states x durations x methods x directions through the real _compute_stm, compared entry-wise with (a) Richardson finite differences of the library's own flow and (b) an independent variational reference; symplecticity in the harness-built two-form; periodic orbits' monodromy; every sequence of <= 3 operations {read monodromy, set period, propagate} on one orbit object",
            "For 3 mass ratios x 3 states (L1 vicinity, mid field, far side) x tf {0.3,1,2.5} x {adaptive 8, adaptive 5, fixed 8} x forward +-1 the returned Phi(tf) must equal the derivative of that same (forward or backward) flow: against 12 perturbed propagations of the library's own _propagate_dynsys (Richardson) "
            "and against scipy DOP853 on harness-side variational equations; Phi^T W Phi = W with W built in the harness from canonical momenta, det = 1, reciprocal eigenvalue pairs; for corrected halo N/S and Lyapunov orbits at L1/L2: monodromy vs reference, M f(x0) = f(x0), stability indices vs reference pairs.",
            "arcs that approach a primary closer than max(0.03, half a Hill radius) or stretch beyond 1e4 are skipped and counted; tolerances 1e-6 (reference), 2e-6 (finite differences), 1e-7*|Phi|^2 (two-form).",
            "DESIGN.md C03"),
    "C12": ("exploration",
            "exhaustive product orbit menu x stable/unstable x direction x phase fractions x displacement x method through the real Manifold.compute; each retained seed compared with the eigenvector of a reference monodromy computed at its own base point; every ordered pair and (a,b,a) triple of compute() argument sets on one Manifold; orbit re-corrected in place between manifolds; energy-filter tolerance ladder",
            "For corrected halo S/N and Lyapunov orbits at L1/L2, all four (stable, direction) branches, phases k/8 (thorough k/16), displacements 1e-6 and 1e-4: the base point of each seed is located by a 1-D search along a dense reference orbit, the reference monodromy at that point is integrated independently, and the seed offset must be "
            "parallel to its eigenvector with multiplier inside/outside the unit circle (1e-3 rad + base-mismatch/displacement), of position norm = displacement; positive and negative seeds must be mirror images about the orbit; stable branches must carry non-positive decreasing times, unstable ones non-negative increasing; "
            "the reference Jacobi constant must be kept along every retained trajectory.",
            "base point = the orbit point minimising the angle (the statement allows any point of the orbit); orbits whose correction is rejected are counted, not failed.",
            "DESIGN.md C12"),
    "C14": ("model_checking",
            "stateless model checking of the map engine's thread pool on the implementation (virtual executor: all interleavings of workers' backend calls and completion orders), plus exhaustive configuration lattice for section / energy / returns and the prange kernel under the real and a virtual scheduler; map-object histories (compute A under config c1, assign c2, compute B) over all sections and configuration pairs",
            "ThreadPoolExecutor and as_completed of the centre-manifold engine are rebound to a virtual executor (engine/vexec.py) in which every worker is a real thread holding a baton and parking in front of each backend call; the explorer enumerates every interleaving and completion order for 2 workers x 3 iterations and "
            "3 workers x 1 iteration, and preemption-bounded (1; thorough: unbounded / 2) for 3 workers x 2 iterations and 4 workers, replaying each schedule on the real engine and comparing the multiset of (state, time) rows with the serial result. Around it: section coordinate exactly 0, |H_cm-h0| <= 0.1 dt^2 on a dt ladder, points = projection "
            "of states on the labelled plane, 1/2/3/5 workers give identical multisets, for 4 sections x {fixed 4,6,8; symplectic 2,4} x seeding strategies; backend.run on explicit seeds: each returned row is the first admissible return of its seed under an independent reference flow (Newton-refined), error <= 0.1 dt^2; "
            "_poincare_map bitwise identical for threads 1..16 x chunksizes and conflict-free under the parx virtual prange scheduler.",
            "scheduling points are the backend calls (the only shared objects touched by workers); p-section direction test is dt-dependent in the library (dq/dt ~ 0 at the crossing) so either crossing direction is accepted there; symplectic energy accuracy is bounded, not laddered.",
            "DESIGN.md C14"),
    "C20": ("model_checking",
            "explicit-state exploration of operation histories on real domain objects (all sequences over each object's alphabet up to a depth bound), every step's return value and every final observer compared with a fresh twin constructed directly in the reference model's logical state",
            "Four object models - GenericOrbit (period setter, three propagate settings, monodromy/trajectory/stability reads, save/load), CenterManifold (degree setter, hamiltonian(d) queries, compute, to_synodic), halo orbit with three correction option sets differing only in nested fields + period setter + propagate, "
            "System/LibrationPoint (five propagate argument sets, centre-manifold factory, linear modes, save/load) - are driven through every history up to depth 3 (System: 2; thorough: +1). The reference model holds only the logical state (initial state, period, last propagation settings, degree) and no caches; for each step a "
            "fresh object is built in that state, the same operation is applied to it and to the long-lived object, and the results must agree; after the history all observers are compared the same way. Reads are part of the alphabet, so every cache is populated before later mutations.",
            "orbit-level models share one System/point per process (objects that share services); save/load is explored as the last operation of every history (a reloaded object owns a new System); 'random walks for long histories' of the property text are not built (sampling).",
            "DESIGN.md C20"),
}

NOT_YET = {
}


def main():
    props = [json.loads(l) for l in open(os.path.join(ROOT, "properties.jsonl"))]
    checks = []
    na = []
    for p in props:
        pid = p["id"]
        if pid in CHECKS:
            cat, tech, text, note, ref = CHECKS[pid]
            checks.append({
                "property_id": pid,
                "quick_cmd": "./check %s --tier quick" % pid,
                "thorough_cmd": "./check %s --tier thorough" % pid,
                "evidence_file": "/verif/evidence/%s.json" % pid,
                "replay_cmd_template": "./check %s --replay {path}" % pid,
                "engine": "engine/core.py + props/%s.py" % pid.lower(),
                "level_claimed": {"category": cat, "text": text, "design_ref": ref},
                "level_note": note,
                "technique": tech,
            })
        else:
            na.append({"property_id": pid, "reason": NOT_YET.get(pid, "check not built yet in this session (planned, see DESIGN.md section 1); not claimed until it runs clean on the unchanged tree")})
    hooks_commits = []
    try:
        out = subprocess.run(["git", "-C", "/repo", "log", "--format=%H %s"], capture_output=True, text=True).stdout
        for line in out.splitlines():
            h, _, s = line.partition(" ")
            if s.startswith("verif-hook:"):
                hooks_commits.append(h)
    except Exception:
        pass
    man = {
        "version": 1,
        "setup_cmd": "./tools/setup.sh",
        "hooks": {
            "guard": "HITEN_VERIF",
            "enable": "export HITEN_VERIF=1 (done by ./check); hiten is an editable install, checks import /repo/src directly, numba JIT-compiles the working tree in-process with a private cache",
            "baseline_off_cmd": "./tools/baseline.sh",
            "source_commits": hooks_commits,
            "add_only": True,
        },
        "engines": [
            {"name": "core", "path": "engine/core.py", "serves_properties": sorted(CHECKS),
             "kind_free_text": "explorer: enumerates the complete finite case space of a property module on the real code, re-executes violating cases, known-finding matching, replay files, evidence"},
        ],
        "checks": checks,
        "not_applicable": na,
        "notes": "All checks decide by bounded exhaustive enumeration on the implementation (no sampling; VERIF_SEED only shifts lattice atoms). Genuine defects found are repaired by 'fix:' commits in /repo or listed in known_findings.json.",
    }
    with open(os.path.join(ROOT, "MANIFEST.json"), "w") as fh:
        json.dump(man, fh, indent=1)
    print("MANIFEST.json: %d checks, %d not_applicable" % (len(checks), len(na)))


if __name__ == "__main__":
    main()
