#!/usr/bin/env python3
"""Regenerates /verif/MANIFEST.json from the table below (keeps it schema-valid)."""
import json
import os
import subprocess
import sys

ROOT = os.path.dirname(os.path.dirname(os.path.abspath(__file__)))

# property id -> (category, technique, level text, level note, design ref)
CHECKS = {
    "C19": ("exploration",
            "bounded exhaustive enumeration of point-cloud pairs and segment pairs on the real backend vs brute-force oracle",
            "Every pair of point clouds with <=3 (thorough: <=4) points on the {0,1,2}^2 lattice (duplicates, collinear, coincident), "
            "x radii x tolerance menu x velocity tables is run through the real _ConnectionsBackend.run and every reported connection "
            "is checked against a brute-force oracle (mutual nearest within radius, delta-v of reported states, limit, label, order, "
            "meeting point = midpoint of the truly closest points of the local segments); all 9^4 lattice segment pairs and an "
            "irrationally sheared copy through _closest_points_on_segments_2d against the exact segment distance. Small-scope "
            "exhaustive: the code has no data-dependent branches beyond those forced by these clouds (ties, degeneracy, parallelism, thresholds hit exactly).",
            "Soundness of reported connections (the statement does not demand completeness); float tolerance 1e-9 on distances; ties accept any choice.",
            "DESIGN.md C19"),
}

NOT_YET = {
}


def main():
    props = [json.loads(l) for l in open(os.path.join(ROOT, "properties.jsonl"))]
    checks = []
    na = []
    for p in props:
        pid = p["id"]
        if pid in CHECKS:
            cat, tech, text, note, ref = CHECKS[pid]
            checks.append({
                "property_id": pid,
                "quick_cmd": "./check %s --tier quick" % pid,
                "thorough_cmd": "./check %s --tier thorough" % pid,
                "evidence_file": "/verif/evidence/%s.json" % pid,
                "replay_cmd_template": "./check %s --replay {path}" % pid,
                "engine": "engine/core.py + props/%s.py" % pid.lower(),
                "level_claimed": {"category": cat, "text": text, "design_ref": ref},
                "level_note": note,
                "technique": tech,
            })
        else:
            na.append({"property_id": pid, "reason": NOT_YET.get(pid, "check not built yet in this session (planned, see DESIGN.md section 1); not claimed until it runs clean on the unchanged tree")})
    hooks_commits = []
    try:
        out = subprocess.run(["git", "-C", "/repo", "log", "--format=%H %s"], capture_output=True, text=True).stdout
        for line in out.splitlines():
            h, _, s = line.partition(" ")
            if s.startswith("verif-hook:"):
                hooks_commits.append(h)
    except Exception:
        pass
    man = {
        "version": 1,
        "setup_cmd": "./tools/setup.sh",
        "hooks": {
            "guard": "HITEN_VERIF",
            "enable": "export HITEN_VERIF=1 (done by ./check); hiten is an editable install, checks import /repo/src directly, numba JIT-compiles the working tree in-process with a private cache",
            "baseline_off_cmd": "./tools/baseline.sh",
            "source_commits": hooks_commits,
            "add_only": True,
        },
        "engines": [
            {"name": "core", "path": "engine/core.py", "serves_properties": sorted(CHECKS),
             "kind_free_text": "explorer: enumerates the complete finite case space of a property module on the real code, re-executes violating cases, known-finding matching, replay files, evidence"},
        ],
        "checks": checks,
        "not_applicable": na,
        "notes": "All checks decide by bounded exhaustive enumeration on the implementation (no sampling; VERIF_SEED only shifts lattice atoms). Genuine defects found are repaired by 'fix:' commits in /repo or listed in known_findings.json.",
    }
    with open(os.path.join(ROOT, "MANIFEST.json"), "w") as fh:
        json.dump(man, fh, indent=1)
    print("MANIFEST.json: %d checks, %d not_applicable" % (len(checks), len(na)))


if __name__ == "__main__":
    main()
