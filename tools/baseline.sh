#!/bin/bash
# Runs the repository's pinned test suite with the verification guard OFF and compares
# the set of passing tests with /root/.vp/BASELINE.json (stable_pass).
# usage: tools/baseline.sh [-n N] [pytest args / test paths]
unset HITEN_VERIF
export NUMBA_NUM_THREADS="${BASELINE_NUMBA_THREADS:-16}" OMP_WAIT_POLICY=passive
OUT="${BASELINE_OUT:-/verif/.cache/baseline}"
mkdir -p "$OUT"
XD=""
if [ "$1" = "-n" ]; then XD="-n $2"; shift 2; fi
cd /repo
/venv/bin/python -m pytest -ra -q -p no:cacheprovider --timeout=900 --continue-on-collection-errors $XD --junitxml="$OUT/junit.xml" "$@" > "$OUT/pytest.log" 2>&1
tail -3 "$OUT/pytest.log"
/venv/bin/python - "$OUT/junit.xml" "$#" <<'PY'
import json, sys, xml.etree.ElementTree as ET
base = set(json.load(open('/root/.vp/BASELINE.json'))['stable_pass'])
passed = set(); failed = set()
for tc in ET.parse(sys.argv[1]).getroot().iter('testcase'):
    name = tc.get('classname') + '::' + tc.get('name')
    bad = any(ch.tag in ('failure', 'error', 'skipped') for ch in tc)
    (failed if bad else passed).add(name)
partial = int(sys.argv[2]) > 0
missing = sorted((base & failed) if partial else (base - passed))
print('passed=%d failed=%d baseline=%d baseline_not_passing=%d' % (len(passed), len(failed), len(base), len(missing)))
for m in missing[:40]:
    print('  NOT PASSING:', m)
sys.exit(1 if missing else 0)
PY
