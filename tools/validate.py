#!/usr/bin/env python3
"""python3-vt tools/validate.py : validates MANIFEST.json and evidence/*.json against the schemas."""
import glob, json, sys
import jsonschema
ok = True
man = json.load(open('/verif/MANIFEST.json'))
try:
    jsonschema.validate(man, json.load(open('/root/.vp/MANIFEST.schema.json')))
    print('MANIFEST ok')
except Exception as e:
    ok = False; print('MANIFEST INVALID', e)
sch = json.load(open('/root/.vp/EVIDENCE.schema.json'))
for f in sorted(glob.glob('/verif/evidence/*.json')):
    try:
        jsonschema.validate(json.load(open(f)), sch); print(f, 'ok')
    except Exception as e:
        ok = False; print(f, 'INVALID', str(e)[:300])
sys.exit(0 if ok else 1)
