#!/bin/bash
# offline sanity: nothing to build (pure Python harness; hiten is an editable install in /venv)
set -e
cd "$(dirname "$0")/.."
mkdir -p .cache evidence replays
/venv/bin/python -c "import numpy, scipy, mpmath, sympy, numba; print('deps ok')"
/venv/bin/python -c "import sys; sys.path.insert(0,'.'); import engine.core; print('engine ok')"
test -d /repo/src/hiten && echo "repo ok"
